"""
translate_factory.py — Python AST -> the statement IR of lean/DateutilVerif/Model/FactoryIR.lean for the
bodies of the zone-factory methods (C18):

    tz/_factories.py   _TzSingleton.__call__, _TzFactory.instance, _TzOffsetFactory.__call__, _TzStrFactory.__call__
    tz/tz.py           __get_gettz.<locals>.GettzFunc.__call__ / set_cache_size / cache_clear

Each method becomes a `Prog` (list of `Stmt`) in Generated/FactoryPrograms.lean.  The fragment is deliberately
small and matched STRICTLY (receiver, attribute names, argument lists, comparison operators, keyword
arguments): any statement or expression outside it raises `Untranslatable(<construct>)`, which leaves the
previous generated file in place and is reported as a broken tie of C18 (harness/gen.py, vlib.lean_prepare).
`GettzFunc.nocache` is not translated here: the factory programs call it as a primitive (its decision logic is
Model/GettzResolve.lean, tied by `gettz.resolve`).
"""
import ast, os, hashlib
from translate import Untranslatable

WEAK, STRONG, SIZE = "__instances", "__strong_cache", "__strong_cache_size"
LOCKS = ("_cache_lock", "__cache_lock")
CMP = {ast.Gt: ".gt", ast.GtE: ".ge", ast.Lt: ".lt", ast.LtE: ".le"}


def U(node, why=""):
    text = ast.unparse(node) if isinstance(node, ast.AST) else str(node)
    return Untranslatable("factory IR: %s`%s` (line %s)" % (why + " " if why else "", text.split("\n")[0][:100],
                                                             getattr(node, "lineno", "?")))


class Ctx:
    def __init__(self, recv, params, kind):
        self.recv = recv            # "cls" / "self"
        self.params = params        # parameter names after the receiver
        self.kind = kind            # "lru-offset" | "lru-str" | "gettz" | "setsize" | "clear" | "single" | "instance"
        self.var = None             # the local holding the zone: instance / rv
        self.key = None             # the local / parameter holding the key: key / name


def is_attr(node, recv, name):
    return isinstance(node, ast.Attribute) and isinstance(node.value, ast.Name) and node.value.id == recv and node.attr == name


def is_name(node, ident=None):
    return isinstance(node, ast.Name) and (ident is None or node.id == ident)


def is_none(node):
    return isinstance(node, ast.Constant) and node.value is None


def call_of(node, recv, attr, meth):
    """node is `recv.attr.meth(...)`: returns (args, keywords) else None"""
    if isinstance(node, ast.Call) and isinstance(node.func, ast.Attribute) and node.func.attr == meth \
            and is_attr(node.func.value, recv, attr):
        return node.args, node.keywords
    return None


def bind(c, what, ident, node):
    cur = getattr(c, what)
    if cur is None:
        setattr(c, what, ident)
    elif cur != ident:
        raise U(node, "inconsistent %s variable" % what)


def construct_call(c, node):
    """`cls.instance(<the method's own parameters, in order>)`"""
    if not (isinstance(node, ast.Call) and is_attr(node.func, c.recv, "instance") and not node.keywords):
        return False
    if [a.id if is_name(a) else None for a in node.args] != c.params:
        raise U(node, "constructor arguments differ from the parameters %s:" % c.params)
    return True


def len_test(c, test):
    """`len(recv.__strong_cache) OP bound` -> (cmp, bound)"""
    if not (isinstance(test, ast.Compare) and len(test.ops) == 1 and type(test.ops[0]) in CMP
            and isinstance(test.left, ast.Call) and is_name(test.left.func, "len") and len(test.left.args) == 1
            and is_attr(test.left.args[0], c.recv, STRONG) and not test.left.keywords):
        raise U(test, "condition")
    rhs = test.comparators[0]
    if is_attr(rhs, c.recv, SIZE):
        bound = ".sizeField"
    elif is_name(rhs, "size") and "size" in c.params:
        bound = ".sizeArg"
    else:
        raise U(test, "bound of the length test")
    return CMP[type(test.ops[0])], bound


def key_stmt(c, st):
    """the local computation of `key` from the parameters, exact forms only"""
    if c.kind == "lru-str":
        ok = (isinstance(st, ast.Assign) and len(st.targets) == 1 and is_name(st.targets[0], "key")
              and ast.unparse(st.value) == "(%s)" % ", ".join(c.params))
    elif c.kind == "lru-offset":
        n, o = c.params
        ok = (isinstance(st, ast.If) and ast.unparse(st.test) == "isinstance(%s, timedelta)" % o
              and len(st.body) == 1 and len(st.orelse) == 1
              and ast.unparse(st.body[0]) == "key = (%s, %s.total_seconds())" % (n, o)
              and ast.unparse(st.orelse[0]) == "key = (%s, %s)" % (n, o))
    else:
        ok = False
    if ok:
        bind(c, "key", "key", st)
    return ok


def stmt(c, st):
    """one Python statement -> Lean text of a Stmt (or None for a docstring)"""
    if isinstance(st, ast.Expr) and isinstance(st.value, ast.Constant) and isinstance(st.value.value, str):
        return None
    if c.kind.startswith("lru") and c.key in (None, "key") and key_stmt(c, st):
        return ".computeKey"
    # ---- with <lock>:
    if isinstance(st, ast.With):
        if not (len(st.items) == 1 and st.items[0].optional_vars is None
                and any(is_attr(st.items[0].context_expr, c.recv, l) for l in LOCKS)):
            raise U(st, "with item")
        return ".withLock " + block(c, st.body)
    # ---- assignments
    if isinstance(st, ast.Assign):
        if len(st.targets) != 1:
            raise U(st)
        tgt, val = st.targets[0], st.value
        # V = recv.__instances.get/setdefault(K, None | recv.instance(params))
        for meth in ("get", "setdefault"):
            got = call_of(val, c.recv, WEAK, meth)
            if got is not None and is_name(tgt):
                args, kws = got
                if kws or len(args) != 2 or not is_name(args[0]):
                    raise U(val, "arguments of the weak-table call")
                bind(c, "var", tgt.id, st); bind(c, "key", args[0].id, st)
                if is_none(args[1]):
                    d = ".none"
                elif construct_call(c, args[1]):
                    d = ".construct"
                else:
                    raise U(args[1], "default of the weak-table call")
                return ".assignWeak .%s %s" % (meth, d)
        # rv = self.nocache(name=name)
        if (is_name(tgt) and isinstance(val, ast.Call) and is_attr(val.func, c.recv, "nocache") and not val.args
                and len(val.keywords) == 1 and val.keywords[0].arg == "name" and is_name(val.keywords[0].value)
                and c.kind == "gettz"):
            bind(c, "var", tgt.id, st); bind(c, "key", val.keywords[0].value.id, st)
            return ".assignNocache"
        # recv.__instances[K] = V
        if (isinstance(tgt, ast.Subscript) and is_attr(tgt.value, c.recv, WEAK) and is_name(tgt.slice) and is_name(val)):
            bind(c, "key", tgt.slice.id, st); bind(c, "var", val.id, st)
            return ".storeWeak"
        # recv.__strong_cache[K] = recv.__strong_cache.pop(K, V)
        if isinstance(tgt, ast.Subscript) and is_attr(tgt.value, c.recv, STRONG) and is_name(tgt.slice):
            got = call_of(val, c.recv, STRONG, "pop")
            if got is None or got[1] or len(got[0]) != 2 or not all(is_name(a) for a in got[0]) or got[0][0].id != tgt.slice.id:
                raise U(st, "strong-cache update")
            bind(c, "key", tgt.slice.id, st); bind(c, "var", got[0][1].id, st)
            return ".strongTouch"
        # self.__strong_cache_size = size
        if is_attr(tgt, c.recv, SIZE) and is_name(val, "size") and "size" in c.params:
            return ".setSizeField"
        # self.__instances = weakref.WeakValueDictionary()
        if is_attr(tgt, c.recv, WEAK) and ast.unparse(val) == "weakref.WeakValueDictionary()":
            return ".resetWeak"
        # cls.__instance = super(_TzSingleton, cls).__call__()
        if is_attr(tgt, c.recv, "__instance") and ast.unparse(val) in ("super(_TzSingleton, %s).__call__()" % c.recv,
                                                                          "super().__call__()"):
            return ".slotAssignConstruct"
        raise U(st, "assignment")
    # ---- if
    if isinstance(st, ast.If):
        t = st.test
        # if V is None:
        if (isinstance(t, ast.Compare) and len(t.ops) == 1 and isinstance(t.ops[0], ast.Is) and is_none(t.comparators[0])):
            if is_name(t.left) and not st.orelse:
                bind(c, "var", t.left.id, st)
                return ".ifInstNone " + block(c, st.body)
            if is_attr(t.left, c.recv, "__instance") and not st.orelse:
                return ".ifSlotNone " + block(c, st.body)
            raise U(st, "None test")
        # if not (name is None or isinstance(rv, tzlocal_classes) or rv is None): … else: …
        if isinstance(t, ast.UnaryOp) and isinstance(t.op, ast.Not) and c.kind == "gettz" and c.var and c.key:
            want = "%s is None or isinstance(%s, tzlocal_classes) or %s is None" % (c.key, c.var, c.var)
            if ast.unparse(t.operand) != want:
                raise U(t, "cacheability condition (expected `not (%s)`):" % want)
            return ".ifCacheable " + block(c, st.body) + " " + block(c, st.orelse)
        if isinstance(t, ast.Compare) and not st.orelse:
            cm, b = len_test(c, t)
            return ".ifLen %s %s %s" % (cm, b, block(c, st.body))
        raise U(st, "if")
    if isinstance(st, ast.While):
        if st.orelse:
            raise U(st, "while/else")
        cm, b = len_test(c, st.test)
        return ".whileLen %s %s %s" % (cm, b, block(c, st.body))
    # ---- expression statements
    if isinstance(st, ast.Expr):
        got = call_of(st.value, c.recv, STRONG, "popitem")
        if got is not None:
            args, kws = got
            if args or len(kws) > 1 or (kws and not (kws[0].arg == "last" and isinstance(kws[0].value, ast.Constant)
                                                     and isinstance(kws[0].value.value, bool))):
                raise U(st, "popitem arguments")
            last = kws[0].value.value if kws else True
            return ".popitem %s" % ("true" if last else "false")
        got = call_of(st.value, c.recv, STRONG, "clear")
        if got is not None and not got[0] and not got[1]:
            return ".clearStrong"
        raise U(st, "expression statement")
    # ---- return
    if isinstance(st, ast.Return):
        v = st.value
        if is_name(v) and c.var is not None and v.id == c.var:
            return ".retInst"
        if v is not None and is_attr(v, c.recv, "__instance"):
            return ".retSlot"
        if v is not None and ast.unparse(v) == "type.__call__(%s, *args, **kwargs)" % c.recv and c.kind == "instance":
            return ".retConstruct"
        raise U(st, "return")
    raise U(st, "statement")


def block(c, body):
    out = [s for s in (stmt(c, x) for x in body) if s is not None]
    return "[" + ", ".join(wrap(s) for s in out) + "]"


def wrap(s):
    return s if " " not in s else s          # list elements need no parentheses in Lean list syntax


def find_class(tree_body, name):
    for n in tree_body:
        if isinstance(n, ast.ClassDef) and n.name == name:
            return n
    raise Untranslatable("factory IR: class %s not found" % name)


def find_func(body, name):
    for n in body:
        if isinstance(n, ast.FunctionDef) and n.name == name:
            return n
    raise Untranslatable("factory IR: function %s not found" % name)


def method_prog(fn, recv, kind, expect_params=None):
    a = fn.args
    if a.posonlyargs or a.kwonlyargs or (kind != "instance" and (a.vararg or a.kwarg)) or fn.decorator_list:
        raise U(fn, "signature of %s:" % fn.name)
    names = [x.arg for x in a.args]
    if not names or names[0] != recv:
        raise U(fn, "receiver of %s:" % fn.name)
    if kind == "instance" and not (a.vararg and a.vararg.arg == "args" and a.kwarg and a.kwarg.arg == "kwargs" and names == [recv]):
        raise U(fn, "signature of instance:")
    params = names[1:]
    if expect_params is not None and params != expect_params:
        raise U(fn, "parameters of %s (expected %s):" % (fn.name, expect_params))
    c = Ctx(recv, params, kind)
    text = block(c, fn.body)
    fp = hashlib.sha256(ast.dump(fn).encode()).hexdigest()[:16]
    return text, fp


SPECS = [
    # (lean name, file, path to the function, receiver, kind, expected parameters)
    ("singletonCall", "tz/_factories.py", ["_TzSingleton", "__call__"], "cls", "single", []),
    ("factoryInstance", "tz/_factories.py", ["_TzFactory", "instance"], "cls", "instance", []),
    ("offsetCall", "tz/_factories.py", ["_TzOffsetFactory", "__call__"], "cls", "lru-offset", ["name", "offset"]),
    ("strCall", "tz/_factories.py", ["_TzStrFactory", "__call__"], "cls", "lru-str", ["s", "posix_offset"]),
    ("gettzCall", "tz/tz.py", ["__get_gettz", "GettzFunc", "__call__"], "self", "gettz", ["name"]),
    ("gettzSetCacheSize", "tz/tz.py", ["__get_gettz", "GettzFunc", "set_cache_size"], "self", "setsize", ["size"]),
    ("gettzCacheClear", "tz/tz.py", ["__get_gettz", "GettzFunc", "cache_clear"], "self", "clear", []),
]


def locate(tree, path):
    body = tree.body
    node = None
    for p in path:
        node = None
        for n in body:
            if isinstance(n, (ast.ClassDef, ast.FunctionDef)) and n.name == p:
                node = n
                break
        if node is None:
            raise Untranslatable("factory IR: %s not found" % ".".join(path))
        body = node.body
    if not isinstance(node, ast.FunctionDef):
        raise Untranslatable("factory IR: %s is not a function" % ".".join(path))
    return node


def extra_methods(tree, path_to_class, known):
    """methods of the factory class other than the translated / known ones: a helper the translated methods would
    have to call (such a call is itself Untranslatable), reported for information"""
    body = tree.body
    for p in path_to_class:
        body = [n for n in body if isinstance(n, (ast.ClassDef, ast.FunctionDef)) and n.name == p][0].body
    return [n.name for n in body if isinstance(n, ast.FunctionDef) and n.name not in known]


def translate_all(src):
    """-> (Lean text of Generated/FactoryPrograms.lean body, fingerprints)"""
    trees, defs, fps = {}, [], {}
    for lean_name, rel, path, recv, kind, params in SPECS:
        if rel not in trees:
            trees[rel] = ast.parse(open(os.path.join(src, rel)).read())
        fn = locate(trees[rel], path)
        text, fp = method_prog(fn, recv, kind, params)
        defs.append("/-- translated from `%s:%s` -/\ndef %s : Prog :=\n  %s\n" % (rel, ".".join(path), lean_name, text))
        fps[".".join(path)] = fp
    progs = lambda lru: ("{ lruCall := %s, gettzCall := gettzCall, setSize := gettzSetCacheSize, clear := gettzCacheClear,\n"
                         "    single := singletonCall, fresh := factoryInstance }" % lru)
    defs.append("/-- the programs of the tzoffset factory (+ gettz, singleton, instance) -/\ndef offsetPrograms : Programs :=\n  %s\n" % progs("offsetCall"))
    defs.append("/-- the programs of the tzstr factory -/\ndef strPrograms : Programs :=\n  %s\n" % progs("strCall"))
    return "\n".join(defs), fps


# --------------------------------------------------------------------------------------------------------
# statement tables for the thread scheduler (harness/sched18.py): source line -> the pc of the state machine
# the thread is AT when paused before that line, and whether executing the line is a model statement.
# Derived from the SAME AST walk as the IR (instruction indices by the size rules of Model/FactoryIR.lean
# `sizeS`, pc names by its `enc` layout); replaces the former regular-expression "source-shape" tables.
# The copy of sizes / layout kept here is checked on every run by the per-statement pc comparison against
# the driver (fact.run / fact.runir).
# --------------------------------------------------------------------------------------------------------
ENC = {
    "lru": ["lAcq", "lGet", "lTest", "lAlloc", "lInit", "lSdRead", "lSdWrite", "xTouch", "xLen", "xEvict", "xRel", "xRet",
            "idle", "xRelX"],
    "gettz": ["gAcq", "gGet", "gTest", "gAlloc", "gInit", "gCheck", "gStore", "gRelE", "gRetE", "xTouch", "xLen", "xEvict",
              "xRel", "xRet", "idle", "xRelX"],
    "setsize": ["sAcq", "sSet", "sLoop", "sPop", "sRel"],
    "clear": ["cAcq", "cWeak", "cStrong", "cRel"],
    "single": ["uTest", "uAlloc", "uInit", "uStore", "uRet"],
}


def _size(c, st):
    """number of instructions of a statement (Model/FactoryIR.lean `sizeS`); statements are classified by `stmt`"""
    t = stmt(c, st)
    return _size_text(c, st, t)


def _size_text(c, st, t):
    if t is None or t == ".computeKey":
        return 0
    head = t.split(" ")[0]
    if head == ".withLock":
        return sum(_size(c, x) for x in st.body) + 2
    if head == ".assignWeak":
        return {".get .none": 1, ".get .construct": 3, ".setdefault .none": 2, ".setdefault .construct": 4}[" ".join(t.split(" ")[1:3])]
    if head in (".ifInstNone", ".ifLen", ".whileLen", ".ifSlotNone"):
        return sum(_size(c, x) for x in st.body) + 1
    if head == ".ifCacheable":
        return sum(_size(c, x) for x in st.body) + sum(_size(c, x) for x in st.orelse) + 1
    return {".assignNocache": 2, ".retInst": 2, ".slotAssignConstruct": 3, ".retConstruct": 3}.get(head, 1)


def _walk(c, body, i, in_lock, enc, table):
    name = lambda j: enc[j] if j < len(enc) else "idle"
    for st in body:
        t = stmt(c, st)
        if t is None:
            continue
        head = t.split(" ")[0]
        n = _size_text(c, st, t)
        L = st.lineno
        if head == ".computeKey":
            pass                                                    # local computation: no model statement
        elif head == ".withLock":
            table[L] = [(name(i), True), ("REL", True)]             # acquire; second visit: the `with` exit
            _walk(c, st.body, i + 1, True, enc, table)
        elif head == ".assignWeak" and t.endswith(".construct"):
            Lc = st.value.args[1].lineno
            read = i + 2
            if Lc != L:
                table[L] = [(name(i), False), (name(read), True)]   # first visit loads the method, second calls it
                table[Lc] = [(name(i), True), None]                 # the argument line constructs the object
            else:
                table[L] = [(name(i), True), None]
        elif head in (".ifInstNone", ".ifLen", ".whileLen", ".ifSlotNone"):
            table[L] = [(name(i), True), (name(i), True)] if head == ".whileLen" else [(name(i), True), None]
            _walk(c, st.body, i + 1, in_lock, enc, table)
        elif head == ".ifCacheable":
            table[L] = [(name(i), True), None]
            for extra in range(L + 1, (st.test.end_lineno or L) + 1):
                table[extra] = [(None, False), None]                # continuation lines of the condition
            _walk(c, st.body, i + 1, in_lock, enc, table)
            _walk(c, st.orelse, i + 1 + sum(_size(c, x) for x in st.body), in_lock, enc, table)
        elif head == ".retInst":
            table[L] = [(name(i), not in_lock), None]               # inside `with`: the exit (next line event) does the work
        else:
            table[L] = [(name(i), True), None]
        i += n


TABLE_SPECS = {"offsetCall": "lru", "strCall": "lru", "gettzCall": "gettz", "gettzSetCacheSize": "setsize",
               "gettzCacheClear": "clear", "singletonCall": "single"}


def statement_tables(src):
    """{lean name of the method: {lineno: [first visit, second visit]}}; raises Untranslatable like translate_all"""
    trees, out = {}, {}
    for lean_name, rel, path, recv, kind, params in SPECS:
        if lean_name not in TABLE_SPECS:
            continue
        if rel not in trees:
            trees[rel] = ast.parse(open(os.path.join(src, rel)).read())
        fn = locate(trees[rel], path)
        method_prog(fn, recv, kind, params)                         # the strict translation must succeed first
        c = Ctx(recv, [x.arg for x in fn.args.args][1:], kind)
        block(c, fn.body)                                           # binds c.var / c.key as the translation does
        table = {}
        _walk(c, fn.body, 0, False, ENC[TABLE_SPECS[lean_name]], table)
        out[lean_name] = table
    return out
