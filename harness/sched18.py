"""
sched18.py — drive the REAL zone factories of dateutil.tz (C18).

(a) single-threaded scripted runs (request / instance / drop-reference / gc / set_cache_size /
    cache_clear) on a FRESH factory, compared with the Lean model through `fact.run`;
(b) 2–4 real threads scheduled one *statement* at a time inside `_factories.py` /
    `GettzFunc.__call__` (sys.settrace line events + an instrumented lock substituted for the
    factory's cache lock): every schedule within a preemption bound, then seeded random ones.
    Each run is compared with the model (same schedule: pc after every statement, returned
    identity classes, final LRU order, live weak keys) and checked directly: no exception, every
    call returns, no two different live objects for one key.

Fresh factories: a subclass of tzoffset / tzstr / tzutc re-runs the metaclass `__init__`, so it
owns new `__instances` / `__strong_cache` / lock but executes the very same `__call__` code;
`type(tz.gettz)()` is a new GettzFunc.  The process-wide singletons are never touched here.
"""
import sys, os, re, gc, threading, inspect, weakref, datetime, random, warnings, time

STEP_TIMEOUT = 20.0
PROBE = datetime.datetime(2020, 6, 15, 12, 0)


class InfraError(Exception):
    pass


class SchedAbort(BaseException):
    pass


# --------------------------------------------------------------------------------------
# keys
# --------------------------------------------------------------------------------------
OFFSET_KEYS = [("A", 3600), ("B", 3600), ("A", -3600), (None, 0), ("UTC", 0), ("C", 7200), ("D", 1800),
               ("E", -18000), ("F", 19800), ("G", 45), ("H", -45), ("I", 86399), ("J", -86399), ("K", 60),
               ("L", 120), ("M", 180), ("N", 240), ("O", 300), ("P", 360), ("Q", 420),
               ("A", "x")]                                   # the constructor raises TypeError (under the lock)
OFFSET_RAISES = {("A", "x")}
STR_KEYS = [("EST5EDT", False), ("EST5EDT", True), ("AAA3", False), ("BBB-4CCC,M3.2.0,M11.1.0", False),
            ("UTC+3", False), ("UTC+3", True), ("CET-1CEST,M3.5.0,M10.5.0/3", False), ("XXX4", False),
            ("YYY-5", False), ("AEST-10AEDT-11,M10.1.0/2,M4.1.0/3", False), ("GMT0BST,M3.5.0/1,M10.5.0", False),
            ("NST3:30NDT,M3.2.0,M11.1.0", False), ("ZZZ6", False), ("WWW7", True), ("VVV8", False),
            ("TTT9", False), ("SSS-9", False), ("RRR-10", True), ("QQQ-11", False), ("PPP1", False),
            ("1", False)]                                    # the constructor raises ValueError (under the lock)
STR_RAISES = {("1", False)}
LOCAL_TZ = "XYZ3QRS"                 # process TZ while gettz cases run: names XYZ / QRS resolve to tzlocal()
GETTZ_ZONE = ["Europe/Paris", "America/New_York", "Asia/Tokyo", "Australia/Sydney", "Africa/Cairo",
              "Europe/London", "America/Sao_Paulo", "Asia/Kolkata", "Pacific/Auckland", "Europe/Dublin",
              "America/St_Johns", "Asia/Kathmandu", "Africa/Casablanca", "Europe/Moscow", "Etc/UTC",
              "America/Los_Angeles", "Asia/Tehran", "Pacific/Chatham"]
GETTZ_UNCACHED = ["XYZ", "QRS"]
GETTZ_NONE = ["Nonexistent/Zone", "NoSuchZoneAtAll"]
GETTZ_SHARED = [("UTC", 0), ("GMT", 0), ("Vend/A", 1), ("Vend/B", 2)]   # (name, slot): the constant tz.UTC / vendored entries
GETTZ_RAISES = [b"x"]                                        # nocache raises TypeError under the lock


def zoneinfo_names():
    return [n for n in GETTZ_ZONE if os.path.isfile(os.path.join("/usr/share/zoneinfo", n))]


class pinned_tz:
    def __init__(self, value):
        self.value = value

    def __enter__(self):
        self.old = os.environ.get("TZ")
        os.environ["TZ"] = self.value
        time.tzset()

    def __exit__(self, *a):
        if self.old is None:
            os.environ.pop("TZ", None)
        else:
            os.environ["TZ"] = self.old
        time.tzset()


class _VendoredStub:
    def __init__(self, zones):
        self.zones = zones

    def get(self, name, default=None):
        return self.zones.get(name, default)


class gettz_env:
    """the environment the gettz factory cases run in: TZ = LOCAL_TZ (names XYZ / QRS are tzlocal); TZPATHS = one
    temporary directory of symlinks to the GETTZ_ZONE files (so `UTC` / `GMT` are NOT files and resolve to the constant
    tz.UTC); a vendored database with the entries Vend/A, Vend/B.  Everything is restored / removed on exit."""
    def __enter__(self):
        import tempfile
        from dateutil.tz import tz as T
        import dateutil.zoneinfo as Z
        from dateutil import tz
        self.T, self.Z = T, Z
        self.old = (os.environ.get("TZ"), T.TZPATHS, Z.get_zonefile_instance)
        os.environ["TZ"] = LOCAL_TZ
        time.tzset()
        self.root = tempfile.mkdtemp(prefix="c18gettz_")
        for n in zoneinfo_names():
            d = os.path.join(self.root, n)
            os.makedirs(os.path.dirname(d), exist_ok=True)
            os.symlink(os.path.join("/usr/share/zoneinfo", n), d)
        T.TZPATHS = [self.root]
        stub = _VendoredStub({"Vend/A": tz.tzfile("/usr/share/zoneinfo/Asia/Tehran"),
                              "Vend/B": tz.tzfile("/usr/share/zoneinfo/Pacific/Chatham")})
        Z.get_zonefile_instance = lambda new_instance=False: stub
        return self

    def __exit__(self, *a):
        import shutil
        tzv, paths, gz = self.old
        if tzv is None:
            os.environ.pop("TZ", None)
        else:
            os.environ["TZ"] = tzv
        time.tzset()
        self.T.TZPATHS = paths
        self.Z.get_zonefile_instance = gz
        shutil.rmtree(self.root, ignore_errors=True)
        return False


# --------------------------------------------------------------------------------------
# statement tables: source line -> (model pc the thread is AT when paused before the line,
# whether executing the line is a model statement)   [first visit, second visit in one call]
# --------------------------------------------------------------------------------------
LRU_PATTERNS = [
    (r"with cls\._{1,2}cache_lock", ("lAcq", True), ("xRel", True)),
    (r"=\s*cls\.__instances\.get\(", ("lGet", True), None),
    (r"if instance is None", ("lTest", True), None),
    (r"instance = cls\.__instances\.setdefault\(", ("lAlloc", False), ("lSdRead", True)),
    (r"^\s*cls\.instance\(", ("lAlloc", True), None),
    (r"cls\.__strong_cache\[key\] = cls\.__strong_cache\.pop\(key, instance\)", ("xTouch", True), None),
    (r"if len\(cls\.__strong_cache\) > cls\.__strong_cache_size", ("xLen", True), None),
    (r"cls\.__strong_cache\.popitem\(last=False\)", ("xEvict", True), None),
    (r"return instance", ("xRet", True), None),
]
GETTZ_PATTERNS = [
    (r"with self\._cache_lock", ("gAcq", True), ("REL", True)),
    (r"rv = self\.__instances\.get\(name, None\)", ("gGet", True), None),
    (r"if rv is None:", ("gTest", True), None),
    (r"rv = self\.nocache\(name=name\)", ("gAlloc", True), None),
    (r"if not \(name is None", ("gCheck", True), None),
    (r"^\s*or ", (None, False), None),
    (r"self\.__instances\[name\] = rv", ("gStore", True), None),
    (r"self\.__strong_cache\[name\] = self\.__strong_cache\.pop\(name, rv\)", ("xTouch", True), None),
    (r"if len\(self\.__strong_cache\) > self\.__strong_cache_size", ("xLen", True), None),
    (r"self\.__strong_cache\.popitem\(last=False\)", ("xEvict", True), None),
    (r"return rv", ("RET", True), None),      # first textual occurrence: early return (tau); last: xRet
]
SETSIZE_PATTERNS = [
    (r"with self\._cache_lock", ("sAcq", True), ("sRel", True)),
    (r"self\.__strong_cache_size = size", ("sSet", True), None),
    (r"while len\(self\.__strong_cache\) > size", ("sLoop", True), None),
    (r"self\.__strong_cache\.popitem\(last=False\)", ("sPop", True), None),
]
CLEAR_PATTERNS = [
    (r"with self\._cache_lock", ("cAcq", True), ("cRel", True)),
    (r"self\.__instances = weakref\.WeakValueDictionary\(\)", ("cWeak", True), None),
    (r"self\.__strong_cache\.clear\(\)", ("cStrong", True), None),
]
SINGLE_PATTERNS = [
    (r"if cls\.__instance is None", ("uTest", True), None),
    (r"cls\.__instance = super\(", ("uAlloc", True), None),
    (r"return cls\.__instance", ("uRet", True), None),
]


class ShapeChanged(Exception):
    """the source of a modelled function no longer has the statement shape the model mirrors"""


def line_table(func, patterns, required):
    """{lineno: [(pc, fires) for visit 1, (pc, fires) for visit 2]}; lines that match nothing are
    statements without a model counterpart (local computation)"""
    try:
        src, first = inspect.getsourcelines(func)
    except (OSError, TypeError) as ex:
        raise ShapeChanged("no source for %r: %s" % (func, ex))
    table, seen = {}, {}
    for off, text in enumerate(src):
        stripped = text.split("#")[0]
        for rx, v1, v2 in patterns:
            if re.search(rx, stripped):
                table[first + off] = [v1, v2]
                seen.setdefault(rx, []).append(first + off)
                break
    for rx in required:
        if rx not in seen:
            raise ShapeChanged("%s: no statement matching /%s/" % (getattr(func, "__qualname__", func), rx))
    return table, seen


# --------------------------------------------------------------------------------------
# factories under test
# --------------------------------------------------------------------------------------
class Fac:
    """adapter around one fresh factory"""
    kind = None            # model kind
    model_kind = None
    cached_key = staticmethod(lambda k: True)

    def res_classes(self):
        return []

    def raises_key(self, k):
        return False

    def aux_functions(self):
        """every other Python function of the factory's own code (helpers a change may introduce, e.g. a
        `__trim_strong_cache`): scheduled line by line too, without a model counterpart"""
        from dateutil.tz import _factories as F
        out = []
        for cls in vars(F).values():
            if isinstance(cls, type) and cls.__module__ == F.__name__:
                out += [v for v in vars(cls).values() if inspect.isfunction(v)]
        return out

    def compares_identity(self, k, cached):
        """identity classes are compared for cached results and for results that are an existing shared object"""
        return cached


def _mangled(obj, owner, name):
    return "_%s__%s" % (owner, name)


class LruFac(Fac):
    model_kind = "lru"

    def __init__(self, flavour, cap=8):
        from dateutil import tz
        from dateutil.tz import _factories as F
        self.flavour = flavour
        if flavour == "tzoffset":
            self.meta, base, self.keys = F._TzOffsetFactory, tz.tzoffset, OFFSET_KEYS
            self.lock_attr = "_cache_lock"
        else:
            self.meta, base, self.keys = F._TzStrFactory, tz.tzstr, STR_KEYS
            self.lock_attr = "_TzStrFactory__cache_lock"
        self.cls = type(base)(base.__name__ + "_fresh", (base,), {})
        self.owner = self.meta.__name__
        setattr(self.cls, "_%s__strong_cache_size" % self.owner.lstrip("_"), cap)
        self.cap = cap
        self.nkeys = len(self.keys)
        self.raising = OFFSET_RAISES if flavour == "tzoffset" else STR_RAISES

    def res_classes(self):
        return [3 if tuple(k) in self.raising else 0 for k in self.keys]

    def raises_key(self, k):
        return tuple(self.keys[k]) in self.raising

    def functions(self):
        req = [p[0] for i, p in enumerate(LRU_PATTERNS) if i != 4]
        return {"call": (self.meta.__call__, LRU_PATTERNS, req)}

    def install_lock(self, lock):
        setattr(self.cls, self.lock_attr, lock)

    def call(self, k, variant=0):
        a = self.keys[k]
        if self.flavour == "tzoffset":
            name, off = a
            if variant % 2 and not isinstance(off, str):
                off = datetime.timedelta(seconds=off)
            return self.cls(name, off)
        s, px = a
        if px:
            return self.cls(s, posix_offset=True) if variant % 2 else self.cls(s, True)
        return self.cls(s) if variant % 2 else self.cls(s, False)

    def fresh(self, k):
        return self.cls.instance(*self.keys[k])

    def _map(self, name):
        return getattr(self.cls, "_%s__%s" % (self.owner.lstrip("_"), name))

    def key_index(self, key):
        if self.flavour == "tzoffset":
            for i, (n, o) in enumerate(self.keys):
                if key[0] == n and key[1] == o:
                    return i
        else:
            for i, a in enumerate(self.keys):
                if tuple(key) == tuple(a):
                    return i
        return -1

    def strong_keys(self):
        return [self.key_index(k) for k in self._map("strong_cache").keys()]

    def weak_keys(self):
        return sorted(self.key_index(k) for k in list(self._map("instances").keys()))

    def cap_now(self):
        return self._map("strong_cache_size")

    def describe(self, k):
        return repr(self.keys[k])


class GettzFac(Fac):
    model_kind = "gettz"

    def __init__(self, cap=8):
        from dateutil import tz
        self.f = type(tz.gettz)()
        self.names = zoneinfo_names() + GETTZ_UNCACHED + GETTZ_NONE + [n for n, _ in GETTZ_SHARED] + GETTZ_RAISES
        nz = len(zoneinfo_names())
        self.classes = [0] * nz + [1] * len(GETTZ_UNCACHED) + [2] * len(GETTZ_NONE) + [10 + sl for _, sl in GETTZ_SHARED] \
            + [3] * len(GETTZ_RAISES)
        self.nkeys = len(self.names)
        self.nzone = nz
        if cap != 8:
            self.f.set_cache_size(cap)
        self.cap = cap

    def res_classes(self):
        return self.classes

    def cached_key(self, k):
        return self.classes[k] == 0 or self.classes[k] >= 10

    def raises_key(self, k):
        return self.classes[k] == 3

    def compares_identity(self, k, cached):
        return cached or self.classes[k] >= 10

    def functions(self):
        T = type(self.f)
        return {"call": (T.__call__, GETTZ_PATTERNS, [p[0] for i, p in enumerate(GETTZ_PATTERNS) if i != 5]),
                "setsize": (T.set_cache_size, SETSIZE_PATTERNS, [p[0] for p in SETSIZE_PATTERNS]),
                "clear": (T.cache_clear, CLEAR_PATTERNS, [p[0] for p in CLEAR_PATTERNS])}

    def install_lock(self, lock):
        self.f._cache_lock = lock

    def aux_functions(self):
        # all methods of GettzFunc (not the staticmethod nocache: name resolution touches no shared state of the factory)
        return [v for k, v in vars(type(self.f)).items() if inspect.isfunction(v)]

    def call(self, k, variant=0):
        return self.f(self.names[k]) if variant % 2 else self.f(name=self.names[k])

    def fresh(self, k):
        return self.f.nocache(self.names[k])

    def set_size(self, n):
        self.f.set_cache_size(n)

    def clear(self):
        self.f.cache_clear()

    def strong_keys(self):
        return [self.names.index(k) for k in self.f._GettzFunc__strong_cache.keys()]

    def weak_keys(self):
        return sorted(self.names.index(k) for k in list(self.f._GettzFunc__instances.keys()))

    def cap_now(self):
        return self.f._GettzFunc__strong_cache_size

    def describe(self, k):
        return repr(self.names[k])


class SingleFac(Fac):
    def __init__(self, preinit):
        from dateutil import tz
        from dateutil.tz import _factories as F
        self.meta = F._TzSingleton
        self.cls = type(tz.tzutc)("tzutc_fresh", (tz.tzutc,), {})
        self.model_kind = "single" if preinit else "single0"
        self.keep = self.cls() if preinit else None       # what `UTC = tzutc()` does at import
        self.nkeys = 1
        self.cap = 8

    def functions(self):
        return {"call": (self.meta.__call__, SINGLE_PATTERNS, [p[0] for p in SINGLE_PATTERNS])}

    def install_lock(self, lock):
        pass

    def call(self, k, variant=0):
        return self.cls()

    def fresh(self, k):
        return type.__call__(self.cls)

    def strong_keys(self):
        return []

    def weak_keys(self):
        return []

    def cap_now(self):
        return 8

    def describe(self, k):
        return "tzutc()"


def make_factory(spec, cap=8):
    if spec == "tzoffset" or spec == "tzstr":
        return LruFac(spec, cap)
    if spec == "gettz":
        return GettzFac(cap)
    if spec == "single":
        return SingleFac(True)
    if spec == "single0":
        return SingleFac(False)
    raise ValueError(spec)


# --------------------------------------------------------------------------------------
# identity classes
# --------------------------------------------------------------------------------------
class Classes:
    """identity classes of returned objects; survives the death of objects (weak references)"""
    def __init__(self):
        self.refs = []

    def of(self, obj):
        if obj is None:
            return None
        for i, r in enumerate(self.refs):
            if r() is obj:
                return i
        self.refs.append(weakref.ref(obj))
        return len(self.refs) - 1


def canon(seq):
    """rename ids by first appearance"""
    m, out = {}, []
    for x in seq:
        if x is None:
            out.append(None)
        else:
            out.append(m.setdefault(x, len(m)))
    return out


def parse_model(resp):
    if not resp.startswith("ok "):
        return None
    d = {}
    for part in resp[3:].split(" "):
        k, _, v = part.partition("=")
        d[k] = v
    out = {"pcs": [p for p in d.get("pcs", "").split(",") if p]}
    rets = []
    for r in [x for x in d.get("rets", "").split(";") if x]:
        t, k, i, c = r.split(":")
        rets.append((int(t), int(k), None if i in ("-", "!") else int(i), c == "1", i == "!"))
    out["rets"] = rets
    out["strong"] = [int(x.split(":")[0]) for x in d.get("strong", "").split(",") if x]
    out["weak"] = sorted(int(x.split(":")[0]) for x in d.get("weak", "").split(",") if x)
    out["cap"] = int(d.get("cap", "0"))
    out["lock"] = d.get("lock")
    return out


def script_wire(scripts):
    def w(op):
        if op[0] == "call":
            return "c%d" % op[1]
        if op[0] == "fresh":
            return "f%d" % op[1]
        if op[0] == "setsize":
            return "s%d" % op[1]
        return "x"
    return "/".join(",".join(w(o) for o in sc) if sc else "-" for sc in scripts)


# --------------------------------------------------------------------------------------
# (a) single-threaded scripted runs
# --------------------------------------------------------------------------------------
def run_script(fac, ops):
    """ops: ('call',k,variant) ('fresh',k) ('drop',n) ('gc',) ('setsize',n) ('clear',).
    Returns (impl observation, model request line)."""
    held, nret = {}, 0
    classes = Classes()
    rets, labels, script = [], [], []
    keep_fresh = []
    err = None
    try:
        for op in ops:
            if op[0] in ("call", "fresh"):
                script.append((op[0], op[1])); labels.append("r0")
                try:
                    o = fac.call(op[1], op[2] if len(op) > 2 else 0) if op[0] == "call" else fac.fresh(op[1])
                except Exception as ex:               # noqa
                    if not fac.raises_key(op[1]):
                        raise
                    rets.append((op[1], None, False, True, True, False))      # the documented exception of that key
                    continue
                cached = op[0] == "call" and (fac.cached_key(op[1]) if isinstance(fac, GettzFac) else True)
                rets.append((op[1], classes.of(o), cached, o is None, False, fac.compares_identity(op[1], cached)))
                if cached:
                    held[nret] = o
                    nret += 1
                else:
                    keep_fresh.append(o)
                del o
            elif op[0] == "drop":
                if op[1] in held:
                    del held[op[1]]
                    labels.append("d0.%d" % op[1])
            elif op[0] == "gc":
                gc.collect()
                labels.append("g")
            elif op[0] == "setsize":
                fac.set_size(op[1]); script.append(("setsize", op[1])); labels.append("r0")
            elif op[0] == "clear":
                fac.clear(); script.append(("clear",)); labels.append("r0")
    except Exception as ex:                       # noqa
        err = "%s: %s" % (type(ex).__name__, ex)
    gc.collect()
    obs = {"rets": rets, "strong": fac.strong_keys(), "weak": fac.weak_keys(), "cap": fac.cap_now(), "error": err,
           "held_objs": dict(held)}
    req = "fact.run %s %d %s %s %s 1" % (fac.model_kind, fac.cap, "[" + ",".join(map(str, fac.res_classes())) + "]",
                                          script_wire([script]), ",".join(labels) if labels else "-")
    return obs, req


def compare_script(obs, model):
    """list of differences between the implementation's observation and the model's"""
    diffs = []
    if model is None:
        return ["model rejected the request"]
    if obs["error"]:
        diffs.append("implementation raised " + obs["error"])
    diffs += compare_rets([(0,) + tuple(r) for r in obs["rets"]], model["rets"])
    if obs["strong"] != model["strong"]:
        diffs.append("strong cache order: impl %s model %s" % (obs["strong"], model["strong"]))
    if obs["weak"] != model["weak"]:
        diffs.append("live weak keys: impl %s model %s" % (obs["weak"], model["weak"]))
    if obs["cap"] != model["cap"]:
        diffs.append("cache size: impl %s model %s" % (obs["cap"], model["cap"]))
    return diffs


def compare_rets(ii, mi):
    """ii: impl returns (t, key, cls, cached, none, exc, cmp);  mi: model returns (t, key, id, cached, exc)"""
    diffs = []
    if len(ii) != len(mi):
        return ["returns: %d (impl) vs %d (model)" % (len(ii), len(mi))]
    if [(r[0], r[1]) for r in ii] != [(r[0], r[1]) for r in mi]:
        diffs.append("order / keys of returns differ")
    if [bool(r[5]) for r in ii] != [bool(r[4]) for r in mi]:
        diffs.append("raised/returned differs: impl %s model %s" % ([int(r[5]) for r in ii], [int(r[4]) for r in mi]))
    # identity classes: cached results and results that are an existing shared object; the other uncached
    # results (tzlocal / None / instance / nocache) only for being None or not — their freshness is an oracle matter
    ic = canon([r[2] if r[6] else None for r in ii])
    mc = canon([m[2] if r[6] else None for r, m in zip(ii, mi)])
    if ic != mc:
        diffs.append("identity classes: impl %s model %s" % (ic, mc))
    if [bool(r[4]) for r in ii] != [m[2] is None for m in mi]:
        diffs.append("None-ness of results differs")
    return diffs


def live_duplicates(fac, held_items):
    """two different live objects for one key among the references still held: [(key, ...)]"""
    by = {}
    for k, o in held_items:
        by.setdefault(k, [])
        if not any(o is x for x in by[k]):
            by[k].append(o)
    return [k for k, v in by.items() if len(v) > 1]


# --------------------------------------------------------------------------------------
# (b) threads scheduled statement by statement
# --------------------------------------------------------------------------------------
RUNNING = ("running",)


class CoopLock:
    """instrumented replacement for the factory's cache lock (same interface)"""
    def __init__(self, sched):
        self.s = sched
        self.owner = None
        self.acquires = 0
        self.releases = 0

    def acquire(self, blocking=True, timeout=-1):
        me = self.s.me()
        while self.owner is not None:
            self.s.block(me)
        self.owner = me
        self.acquires += 1
        return True

    def release(self):
        if self.owner is None:
            raise RuntimeError("release unlocked lock")
        self.owner = None
        self.releases += 1

    def locked(self):
        return self.owner is not None

    def __enter__(self):
        self.acquire()
        return self

    def __exit__(self, *a):
        self.release()
        return False


class Sched:
    def __init__(self, tables):
        self.cv = threading.Condition()
        self.turn = None
        self.state = {}
        self.tables = tables             # code -> (tag, {line: [v1, v2]})
        self.ids = {}
        self.abort = False
        self.visits = {}

    def me(self):
        return self.ids[threading.get_ident()]

    def _pause(self, me, st):
        with self.cv:
            self.state[me] = st
            self.cv.notify_all()
            while self.turn != me:
                if self.abort:
                    raise SchedAbort()
                self.cv.wait(0.5)
            self.turn = None
            if self.abort:
                raise SchedAbort()

    def block(self, me):
        self._pause(me, ("blocked",))

    def tracer(self, frame, event, arg):
        ent = self.tables.get(frame.f_code)
        if ent is None:
            return None
        self.visits[(self.me(), frame.f_code)] = {}
        return self.local

    def local(self, frame, event, arg):
        if event == "line":
            me = self.me()
            v = self.visits[(me, frame.f_code)]
            v[frame.f_lineno] = v.get(frame.f_lineno, 0) + 1
            tag = self.tables[frame.f_code][0]
            self._pause(me, ("at", tag, frame.f_lineno, v[frame.f_lineno]))
        return self.local

    def spawn(self, idx, body):
        def run():
            self.ids[threading.get_ident()] = idx
            try:
                self._pause(idx, ("new",))
                sys.settrace(self.tracer)
                try:
                    body(self, idx)
                finally:
                    sys.settrace(None)
            except SchedAbort:
                pass
            finally:
                with self.cv:
                    self.state[idx] = ("done",)
                    self.cv.notify_all()
        t = threading.Thread(target=run, daemon=True)
        t.start()
        with self.cv:
            while idx not in self.state:
                if not self.cv.wait(STEP_TIMEOUT):
                    raise InfraError("thread did not start")
        return t

    def step(self, idx):
        with self.cv:
            self.state[idx] = RUNNING
            self.turn = idx
            self.cv.notify_all()
            t0 = time.time()
            while self.state[idx] is RUNNING:
                self.cv.wait(1.0)
                if time.time() - t0 > STEP_TIMEOUT:
                    raise InfraError("thread %d did not reach a scheduling point" % idx)
            return self.state[idx]

    def stop(self):
        with self.cv:
            self.abort = True
            self.cv.notify_all()


class PrefixPolicy:
    """follow `prefix`, then keep running the current thread while it is enabled (no preemption)"""
    def __init__(self, prefix):
        self.prefix = list(prefix)

    def choose(self, i, enabled, cur):
        if i < len(self.prefix) and self.prefix[i] in enabled:
            return self.prefix[i]
        if cur in enabled:
            return cur
        return min(enabled)


class RandomPolicy:
    def __init__(self, rng, stickiness=0.5):
        self.rng = rng
        self.sticky = stickiness

    def choose(self, i, enabled, cur):
        if cur in enabled and self.rng.random() < self.sticky:
            return cur
        return self.rng.choice(sorted(enabled))


def build_tables(fac, lenient=False):
    """statement tables of the factory's functions.  `lenient`: a function whose source no longer
    has the modelled statement shape is still scheduled line by line, but without a model
    counterpart (returns the list of such functions as third component)."""
    tables, info, unmapped = {}, {}, []
    for tag, (fn, pats, req) in fac.functions().items():
        try:
            table, seen = line_table(fn, pats, req)
            if tag == "call" and fac.model_kind == "gettz":
                rets = seen.get(r"return rv", [])
                if len(rets) != 2:
                    raise ShapeChanged("GettzFunc.__call__: expected two `return rv` statements, found %d" % len(rets))
                table[rets[0]] = [("gRelE", False), None]
                table[rets[1]] = [("xRet", True), None]
        except ShapeChanged as ex:
            if not lenient:
                raise
            unmapped.append(str(ex))
            table = {}
        tables[fn.__code__] = (tag, table)
        info[tag] = table
    info["aux"] = {}
    for fn in fac.aux_functions():
        if fn.__code__ not in tables:
            tables[fn.__code__] = ("aux", {})
    return tables, info, unmapped


def run_threads(fac, scripts, policy, env_rng=None, env_rate=0.0, max_steps=5000, fine=False):
    """execute `scripts` (one list of ops per thread) on the real factory under `policy`.
    Returns a record with the step trace, the model labels with the pc expected after each,
    results, final maps, and what went wrong (exception / deadlock / not all calls returned)."""
    tables, info, unmapped = build_tables(fac, lenient=True)
    if fine:
        # beyond the property's statement granularity: also pre-empt between the source lines of the
        # pure-Python bodies of WeakValueDictionary.get / setdefault / __setitem__ (steps without a model
        # counterpart of their own: the enclosing dateutil statement is the model step)
        for fn in (weakref.WeakValueDictionary.setdefault, weakref.WeakValueDictionary.get,
                   weakref.WeakValueDictionary.__setitem__):
            tables[fn.__code__] = ("wvd", {})
        info["wvd"] = {}
    sched = Sched(tables)
    lock = CoopLock(sched)
    fac.install_lock(lock)
    n = len(scripts)
    classes = Classes()
    order = []                               # every return, in order: dict(t, key, obj, cached, cls, none, epoch)
    handed = [[] for _ in range(n)]          # per thread: the cached returns (index = ticket seq)
    errors = []
    leaked = []                              # an exception left the call with the cache lock still held

    def body(s, idx):
        for op in scripts[idx]:
            s._pause(idx, ("start", op[0]))
            try:
                if op[0] in ("call", "fresh"):
                    try:
                        o = fac.call(op[1], op[2] if len(op) > 2 else 0) if op[0] == "call" else fac.fresh(op[1])
                    except SchedAbort:
                        raise
                    except Exception as ex:        # noqa
                        if not fac.raises_key(op[1]):
                            raise
                        # the documented exception of that key (TypeError / ValueError from the constructor)
                        order.append({"t": idx, "key": op[1], "obj": None, "cached": False, "cls": None, "none": True,
                                      "epoch": None, "exc": True, "cmp": False, "fresh": False})
                        if lock.owner == idx:
                            leaked.append({"thread": idx, "op": list(op)})       # NOT reset: a follow-on deadlock must show
                        continue
                    if o is not None:
                        o.utcoffset(PROBE); o.tzname(PROBE)       # a half-built zone would fail here ("never observe …")
                    cached = op[0] == "call" and (fac.cached_key(op[1]) if isinstance(fac, GettzFac) else True)
                    e = {"t": idx, "key": op[1], "obj": o, "cached": cached, "cls": classes.of(o), "none": o is None,
                         "epoch": None, "exc": False, "cmp": fac.compares_identity(op[1], cached),
                         "fresh": op[0] == "fresh" and not fac.compares_identity(op[1], False)}
                    order.append(e)
                    if cached:
                        handed[idx].append(e)
                    del o
                elif op[0] == "setsize":
                    fac.set_size(op[1])
                elif op[0] == "clear":
                    fac.clear()
            except SchedAbort:
                raise
            except Exception as ex:            # noqa — "never observe an exception"
                errors.append({"thread": idx, "op": list(op), "exception": "%s: %s" % (type(ex).__name__, ex)})
                if lock.owner == idx:
                    leaked.append({"thread": idx, "op": list(op)})

    threads = [sched.spawn(i, body) for i in range(n)]
    for i in range(n):
        sched.step(i)                       # from ("new",) to the first ("start", op) or done
    labels, expect, trace, choices = [], [], [], []
    cur = None
    deadlock = False
    steps = 0
    tokens = []                              # epoch tokens (kept alive so identity is meaningful)
    last_epoch = [0] * n
    pending_fresh = [False] * n

    def epoch_index():
        tok = fac.f._GettzFunc__instances if isinstance(fac, GettzFac) else None
        for i, x in enumerate(tokens):
            if x is tok:
                return i
        tokens.append(tok)
        return len(tokens) - 1
    epoch_index()

    def entry(st):
        _, tag, line, visit = st
        ent = info[tag].get(line)
        if ent is None:
            return (None, False)
        return ent[1] if (visit >= 2 and ent[1] is not None) else ent[0]

    def pc_of(st):
        if st[0] in ("done", "start"):
            return "idle"
        if st[0] == "blocked":
            return "B"
        pc = entry(st)[0]
        return None if pc in ("REL", "xRel") else pc      # the `with` exit: normal (xRel / gRelE) or exceptional (xRelX)

    def fires(st):
        if st[0] in ("start", "blocked"):
            return True
        return entry(st)[1]

    try:
        while True:
            live = [i for i in range(n) if sched.state[i][0] != "done"]
            if not live:
                break
            enabled = [i for i in live if not (sched.state[i][0] == "blocked" and lock.owner is not None)]
            if not enabled:
                deadlock = True
                break
            if steps >= max_steps:
                break
            # environment: a caller drops a reference it was handed; unreferenced objects die at once
            # (not while a thread is inside weakref.py: its model statement has fired, its actual read has not)
            inside = any(sched.state[i][0] == "at" and sched.state[i][1] == "wvd" for i in range(n))
            if env_rng is not None and env_rng.random() < env_rate and not inside:
                cands = [(t, j) for t in range(n) for j in range(len(handed[t])) if handed[t][j]["obj"] is not None]
                if cands:
                    t, j = env_rng.choice(cands)
                    handed[t][j]["obj"] = None
                    gc.collect()
                    labels.append("d%d.%d" % (t, j)); expect.append(None)
            c = policy.choose(len(choices), set(enabled), cur)
            choices.append((tuple(enabled), c, cur))
            before = sched.state[c]
            nret = len(order)
            after = sched.step(c)
            steps += 1
            cur = c
            if lock.owner == c:
                last_epoch[c] = epoch_index()
            for e in order[nret:]:
                e["epoch"] = last_epoch[c]
            trace.append((c, before, after))
            if before[0] == "start" and before[1] == "fresh":
                pending_fresh[c] = True          # instance / nocache: one model step, taken when the call completes
            if pending_fresh[c]:
                if after[0] in ("start", "done"):
                    pending_fresh[c] = False
                    labels.append("r%d" % c)
                    expect.append("idle")
            elif fires(before):
                labels.append("m%d" % c)
                expect.append(pc_of(after))
    finally:
        sched.stop()
    for t in threads:
        t.join(STEP_TIMEOUT)
    all_returned = all(sched.state[i][0] == "done" for i in range(n)) and not deadlock
    rets = [(e["t"], e["key"], e["cls"], e["cached"], e["none"], e["exc"], e["cmp"]) for e in order]
    # instance / nocache results that must be new objects: not identical to any other result of the run
    stale = [(e["t"], e["key"]) for e in order if e["fresh"] and e["cls"] is not None
             and sum(1 for x in order if x["cls"] == e["cls"]) > 1]
    req = "fact.run %s %d %s %s %s 1" % (
        fac.model_kind, fac.cap, "[" + ",".join(map(str, fac.res_classes())) + "]",
        script_wire([[tuple(o[:2]) for o in sc] for sc in scripts]), ",".join(labels) if labels else "-")
    live_refs = [((e["key"], e["epoch"]), e["obj"]) for e in order if e["cached"] and e["obj"] is not None]
    return {"labels": labels, "expect": expect, "trace": trace, "choices": choices, "rets": rets, "errors": errors,
            "deadlock": deadlock, "all_returned": all_returned, "steps": steps,
            "strong": fac.strong_keys(), "weak": fac.weak_keys(), "cap": fac.cap_now(), "request": req,
            "dups": live_duplicates(fac, live_refs),
            # the same, ignoring epochs: two live objects for one key where a cache_clear separates the two requests
            "dups_any_epoch": live_duplicates(fac, [(k[0], o) for (k, o) in live_refs]), "lock_leaked": leaked, "not_fresh": stale,
            "lock_balanced": lock.acquires == lock.releases and lock.owner is None,
            "schedule": [c for (_, c, _) in choices], "unmapped": unmapped}


def compare_threads(rec, model):
    diffs = []
    if model is None:
        return ["model rejected the request"]
    got = model["pcs"]
    exp = [e for l, e in zip(rec["labels"], rec["expect"]) if l[0] in "mrt"]
    if len(got) != len(exp):
        diffs.append("model answered %d steps for %d labels" % (len(got), len(exp)))
    else:
        for i, (g, e) in enumerate(zip(got, exp)):
            if e is not None and g != e:
                diffs.append("step %d: implementation is at %s, model at %s" % (i, e, g))
                break
    diffs += compare_rets(rec["rets"], model["rets"])
    if rec["all_returned"]:
        if rec["strong"] != model["strong"]:
            diffs.append("strong cache order: impl %s model %s" % (rec["strong"], model["strong"]))
        if rec["weak"] != model["weak"]:
            diffs.append("live weak keys: impl %s model %s" % (rec["weak"], model["weak"]))
        if rec["cap"] != model["cap"]:
            diffs.append("cache size differs")
    return diffs


def explore(make_case, bound, max_runs, on_run, fine=False):
    """every schedule with at most `bound` preemptions (stateless DFS by re-execution).
    make_case() -> (fac, scripts);  on_run(rec, fac, scripts) is called for each executed schedule.
    Returns (executions, distinct schedules, exhaustive?): `exhaustive` is True only when the frontier was emptied,
    i.e. EVERY schedule with at most `bound` preemptions was executed; on_run sees each distinct schedule once."""
    import collections
    stack = collections.deque([[]])      # breadth first: fewest preemptions first when truncated
    runs = 0
    seen = set()
    while stack:
        if runs >= max_runs:
            return runs, len(seen), False
        prefix = stack.popleft()
        fac, scripts = make_case()
        rec = run_threads(fac, scripts, PrefixPolicy(prefix), fine=fine)
        runs += 1
        sig = tuple(rec["schedule"])
        if sig in seen:
            continue
        seen.add(sig)
        on_run(rec, fac, scripts)
        ch = rec["choices"]
        pre = 0
        pres = []
        for (enabled, chosen, cur) in ch:
            pres.append(pre)
            if cur is not None and cur in enabled and chosen != cur:
                pre += 1
        for i in range(len(prefix), len(ch)):
            enabled, chosen, cur = ch[i]
            for alt in enabled:
                if alt == chosen:
                    continue
                cost = 1 if (cur is not None and cur in enabled and alt != cur) else 0
                if pres[i] + cost <= bound:
                    stack.append([c for (_, c, _) in ch[:i]] + [alt])
    return runs, len(seen), True
