#!/usr/bin/env python3
"""
translate_dt.py — Python AST -> Lean 4 for "DtPy": the fragment in which dateutil's time-zone LOOKUP code is
written (tz/_common.py `tzrangebase`, tz/tz.py `tzfile` lookups, `_datetime_to_timestamp`).  It reuses the
control-flow scheme of translate_bytes.py (everything in `Except PyErr`, join / duplication of `if`, A-normal
form for sub-expressions that can raise) and replaces the expression language.

Values and types
  Dt       datetime (naive reading in µs since the epoch, fold, "tzinfo is self")    DtPy.Dt
  TD       timedelta in µs (Int)              Ts   `total_seconds()` as exact µs (Int)
  Int Bool                                    OptInt  `None` or an int (`idx`)
  IntList  a transition list                  TT / OptTT / TTList  `_ttinfo` objects
  Trans    (dston, dstoff) pair of Dt         OptTrans  `self.transitions(year)` (may be None)
  Str / OptStr  abbreviations
`self` is the zone record of the hand model (TZ.TzFile / TZ.RangeZone): attributes are read through a table.

Expressions: names, int literals, `+ - *` on ints, `dt + td`, `dt - dt`, `td - td`, `dt.replace(tzinfo=None)`,
`dt.year`, `enfold(dt, fold=e)`, `self._fold(dt)`, `int(bool)`, `int(ts)`, `bisect.bisect_right(l, ts)`, `len(l)`,
`l[i]` (IndexError), `self._trans_list_wall[i]`, attribute of a possibly-None object (AttributeError),
`x.total_seconds()`, `datetime.timedelta(seconds=e)`, module constants `ZERO` / `EPOCH`, comparisons (chained;
datetimes by their naive reading, an int against a timestamp scaled), `and/or/not` WITH short-circuit around
operands that can raise, `x is None` / `x is not None`, truthiness of lists / optional objects / ints,
`isinstance(dt, datetime)` (True), tuples, calls of other translated methods (keywords, defaults).
Statements: as translate_bytes.py, plus `a, b = <optional pair>` (TypeError on None), `dt -= td`, and
`if x is None:` / `if x is None or c:` on an optional int, translated to a `match` that narrows the type.
A test `x is None` on a value that cannot be None (a datetime parameter) is statically False: the branch is dropped.
"""
import ast, os, hashlib
from translate import Untranslatable, find_function
import translate_bytes as TB

TB.LEAN_TY.update({"Dt": "DtPy.Dt", "TD": "Int", "Ts": "Int", "OptInt": "Option Int", "IntList": "List Int",
                   "TT": "TZ.TType", "OptTT": "Option TZ.TType", "TTList": "List TZ.TType",
                   "Str": "List UInt8", "OptStr": "Option (List UInt8)", "OptTrans": "Option (DtPy.Dt × DtPy.Dt)"})
TB.DEFAULT.update({"TD": "0", "Ts": "0", "Dt": "default", "OptInt": "none", "IntList": "[]"})

# attribute tables: python attribute -> (lean expression on `self`, type)
ATTRS = {
    "TZ.TzFile": {
        "_trans_list": ("self.transList", "IntList"), "_trans_list_utc": ("self.utc", "IntList"),
        "_trans_idx": ("self.tts", "TTList"), "_ttinfo_std": ("self.std", "OptTT"),
        "_ttinfo_dst": ("self.dst", "OptTT"), "_ttinfo_before": ("self.before", "OptTT"),
        "_trans_list_wall": (None, "WallPair"),
    },
    "TZ.RangeZone": {
        "_std_offset": ("(DtPy.tdSeconds self.stdOff)", "TD"), "_dst_offset": ("(DtPy.tdSeconds self.dstOff)", "TD"),
        "hasdst": ("self.hasdst", "Bool"), "_std_abbr": ("self.stdAbbr", "Str"), "_dst_abbr": ("self.dstAbbr", "Str"),
    },
}
ATTRS["TZ.GenericZone"] = {}
TT_ATTRS = {"offset": ("%s.off", "Int"), "delta": ("(DtPy.tdSeconds %s.off)", "TD"), "isdst": ("%s.isdst", "Int"),
            "dstoffset": ("(DtPy.tdSeconds %s.dstoff)", "TD"), "abbr": ("%s.abbr", "Str")}


LEAN_KEYWORDS = {"end", "at", "from", "fun", "do", "then", "have", "show", "by", "open", "local", "instance", "where",
                 "match", "with", "in", "let", "if", "else", "def", "theorem", "namespace", "section", "variable"}
NARROW = {"OptInt": "Int", "OptTrans": ("Dt", "Dt"), "OptTT": "TT"}   # `x is None` narrows the type of x


class DFn(TB.BFn):
    def __init__(self, qualname, leanname, params, ret, self_type=None, prop=False):
        TB.BFn.__init__(self, qualname, leanname, params, ret)
        self.self_type = self_type
        self.prop = prop          # a @property: read as an attribute


class DTr(TB.BTr):
    def __init__(self, tree, specs, spec):
        TB.BTr.__init__(self, tree, specs, spec)
        cls = spec.qualname.split(".")[0] if "." in spec.qualname else None
        self.specs = {s.qualname.split(".")[-1]: s for s in specs
                      if "." not in s.qualname or s.qualname.split(".")[0] == cls}
        self.attrs = ATTRS.get(spec.self_type, {})

    # ------------------------------------------------------------------ expressions
    def coerce(self, t, ty, want):
        if ty == want: return t
        if want == "OptInt" and ty == "Int": return "(some %s)" % t
        if want == "Ts" and ty == "Int": return "(DtPy.tsOfInt %s)" % t
        if want == "Int" and ty == "Bool": return "(DtPy.b2i %s)" % t
        if isinstance(want, str) and want.startswith("Opt") and ty == "None": return "none"
        if want == "OptStr" and ty == "Str": return "(some %s)" % t
        if want == "OptTT" and ty == "TT": return "(some %s)" % t
        raise Untranslatable("value of type %s where %s is expected" % (ty, want,))

    def expr(self, e):
        if isinstance(e, ast.Constant):
            v = e.value
            if v is True: return [], "true", "Bool"
            if v is False: return [], "false", "Bool"
            if v is None: return [], "none", "None"
            if isinstance(v, int): return [], (str(v) if v >= 0 else "(%d)" % v), "Int"
            raise Untranslatable("constant %r" % (v,))
        if isinstance(e, ast.Name):
            if e.id == "ZERO": return [], "0", "TD"
            if e.id == "EPOCH": return [], "DtPy.EPOCH", "Dt"
            if e.id not in self.types: raise Untranslatable("unbound or untyped name %s" % e.id)
            return [], e.id, self.types[e.id]
        if self.self_attr(e):
            if e.attr in self.attrs and self.attrs[e.attr][0] is not None:
                return [], self.attrs[e.attr][0], self.attrs[e.attr][1]
            if e.attr in self.specs and self.specs[e.attr].prop:
                sp = self.specs[e.attr]
                n = self.fresh()
                return [(n, "%s self" % sp.leanname, sp.ret)], n, sp.ret
            raise Untranslatable("self.%s" % e.attr)
        if isinstance(e, ast.Attribute):
            b, t, ty = self.expr(e.value)
            if ty == "Dt" and e.attr == "year": return b, "(DtPy.year %s)" % t, "Int"
            if ty == "Dt" and e.attr == "tzinfo": return b, "%s.attached" % t, "DtTz"
            if ty in ("TT", "OptTT") and e.attr in TT_ATTRS:
                if ty == "OptTT":
                    n = self.fresh()
                    b = b + [(n, "DtPy.attr %s" % t, "TT")]
                    t = n
                tmpl, rty = TT_ATTRS[e.attr]
                return b, tmpl % t, rty
            raise Untranslatable("attribute .%s on %s" % (e.attr, ty))
        if isinstance(e, ast.UnaryOp):
            if isinstance(e.op, ast.USub):
                b, t, ty = self.expr(e.operand)
                if ty not in ("Int", "TD"): raise Untranslatable("unary minus on %s" % ty)
                return b, "(-%s)" % t, ty
            if isinstance(e.op, ast.Not):
                return self.bool_expr(e)
            raise Untranslatable("unary %s" % type(e.op).__name__)
        if isinstance(e, ast.BinOp):
            return self.binop(e)
        if isinstance(e, (ast.Compare, ast.BoolOp)):
            return self.bool_expr(e)
        if isinstance(e, ast.Subscript):
            return self.subscript(e)
        if isinstance(e, ast.Tuple):
            binds, parts, tys = [], [], []
            for el in e.elts:
                b, t, ty = self.expr(el)
                binds += b; parts.append(t); tys.append(ty)
            return binds, "(" + ", ".join(parts) + ")", tuple(tys)
        if isinstance(e, ast.Call):
            return self.call(e)
        raise Untranslatable(type(e).__name__)

    def bool_expr(self, e):
        """a Bool-valued expression; operands that can raise are evaluated with Python's short-circuit order"""
        b, c = self.cond(e)
        return b, "(decide %s)" % c, "Bool"

    def binop(self, e):
        bl, l, tl = self.expr(e.left)
        br, r, tr = self.expr(e.right)
        binds, op = bl + br, e.op
        if tl == "Dt" and tr == "TD" and isinstance(op, (ast.Add, ast.Sub)):
            return binds, "(DtPy.addTd %s %s)" % (l, r if isinstance(op, ast.Add) else "(-%s)" % r), "Dt"
        if tl == "Dt" and tr == "Dt" and isinstance(op, ast.Sub):
            return binds, "(DtPy.subDt %s %s)" % (l, r), "TD"
        if tl == "TD" and tr == "TD" and isinstance(op, (ast.Add, ast.Sub)):
            return binds, "(%s %s %s)" % (l, "+" if isinstance(op, ast.Add) else "-", r), "TD"
        if tl in ("Int", "Bool") and tr in ("Int", "Bool") and isinstance(op, (ast.Add, ast.Sub, ast.Mult)):
            l, r = self.coerce(l, tl, "Int"), self.coerce(r, tr, "Int")
            return binds, "(%s %s %s)" % (l, {ast.Add: "+", ast.Sub: "-", ast.Mult: "*"}[type(op)], r), "Int"
        raise Untranslatable("binop %s on %s, %s" % (type(op).__name__, tl, tr))

    def subscript(self, e):
        if isinstance(e.slice, ast.Slice): raise Untranslatable("slice")
        # self._trans_list_wall[i]
        if self.self_attr(e.value) and self.attrs.get(e.value.attr, (None, None))[1] == "WallPair":
            bi, i, ti = self.expr(e.slice)
            n = self.fresh()
            return bi + [(n, "DtPy.wallList self %s" % self.coerce(i, ti, "Int"), "IntList")], n, "IntList"
        b, t, ty = self.expr(e.value)
        bi, i, ti = self.expr(e.slice)
        i = self.coerce(i, ti, "Int")
        if ty in ("IntList", "TTList"):
            n = self.fresh()
            return b + bi + [(n, "DtPy.lgetR %s %s" % (t, i), "Int" if ty == "IntList" else "TT")], n, \
                "Int" if ty == "IntList" else "TT"
        raise Untranslatable("index into %s" % ty)

    def call(self, e):
        f = e.func
        if isinstance(f, ast.Name):
            name = f.id
            if name == "len" and len(e.args) == 1:
                b, t, ty = self.expr(e.args[0])
                if ty not in ("IntList", "TTList"): raise Untranslatable("len of %s" % ty)
                return b, "((%s).length : Int)" % t, "Int"
            if name == "int" and len(e.args) == 1:
                b, t, ty = self.expr(e.args[0])
                if ty == "Int": return b, t, "Int"
                if ty == "Bool": return b, "(DtPy.b2i %s)" % t, "Int"
                if ty == "Ts": return b, "(DtPy.intOfTs %s)" % t, "Int"
                raise Untranslatable("int(%s)" % ty)
            if name == "bool" and len(e.args) == 1:
                b, c = self.cond(e.args[0])
                return b, "(decide %s)" % c, "Bool"
            if name == "enfold" and len(e.args) == 1 and len(e.keywords) == 1 and e.keywords[0].arg == "fold":
                b, t, ty = self.expr(e.args[0])
                bf, fv, tf = self.expr(e.keywords[0].value)
                if ty != "Dt": raise Untranslatable("enfold(%s)" % ty)
                return b + bf, "(DtPy.enfold %s %s)" % (t, self.coerce(fv, tf, "Int")), "Dt"
            if name == "isinstance" and len(e.args) == 2:
                b, t, ty = self.expr(e.args[0])
                cls = e.args[1].attr if isinstance(e.args[1], ast.Attribute) else getattr(e.args[1], "id", None)
                if ty == "Dt" and cls == "datetime": return b, "true", "Bool"
                raise Untranslatable("isinstance(%s, %s)" % (ty, cls))
            if name in self.specs:
                return self.user_call(self.specs[name], e, with_self=False)
            raise Untranslatable("call %s" % name)
        if isinstance(f, ast.Attribute):
            if self.self_attr(f):
                if f.attr == "_fold" and len(e.args) == 1:
                    b, t, ty = self.expr(e.args[0])
                    if ty != "Dt": raise Untranslatable("_fold(%s)" % ty)
                    return b, "(DtPy.foldOf %s)" % t, "Int"
                if f.attr == "transitions" and len(e.args) == 1 and self.spec.self_type == "TZ.RangeZone":
                    b, t, ty = self.expr(e.args[0])
                    return b, "(DtPy.transitions self %s)" % self.coerce(t, ty, "Int"), "OptTrans"
                if f.attr == "is_ambiguous" and self.spec.self_type == "TZ.GenericZone" and len(e.args) == 1:
                    # dynamic dispatch: a subclass may override is_ambiguous (tzlocal does)
                    b, t, ty = self.expr(e.args[0])
                    n = self.fresh()
                    return b + [(n, "DtPy.dispatchAmbiguous self (%s self) %s" % (self.specs["is_ambiguous"].leanname, t),
                                 "Bool")], n, "Bool"
                if f.attr in self.specs:
                    return self.user_call(self.specs[f.attr], e, with_self=True)
                raise Untranslatable("method self.%s" % f.attr)
            if isinstance(f.value, ast.Name) and f.value.id == "bisect" and f.attr == "bisect_right" and len(e.args) == 2:
                bl, l, tl = self.expr(e.args[0])
                bx, x, tx = self.expr(e.args[1])
                if tl != "IntList": raise Untranslatable("bisect_right on %s" % tl)
                return bl + bx, "(DtPy.bisectRight %s %s)" % (l, self.coerce(x, tx, "Ts")), "Int"
            if isinstance(f.value, ast.Name) and f.value.id == "datetime" and f.attr == "timedelta" \
                    and not e.args and len(e.keywords) == 1 and e.keywords[0].arg == "seconds":
                b, t, ty = self.expr(e.keywords[0].value)
                return b, "(DtPy.tdSeconds %s)" % self.coerce(t, ty, "Int"), "TD"
            b, t, ty = self.expr(f.value)
            if f.attr in ("utcoffset", "dst") and ty == "Dt" and not e.args and not e.keywords \
                    and self.spec.self_type == "TZ.GenericZone":
                # dt.utcoffset() for a datetime attached to this zone = self.utcoffset(dt) (never None in the model)
                return b, "(DtPy.tdSeconds (self.%s (DtPy.toWall %s)))" % (f.attr, t), "TD"
            if f.attr == "replace" and ty == "Dt" and not e.args and len(e.keywords) == 1 and e.keywords[0].arg == "tzinfo":
                v = e.keywords[0].value
                if isinstance(v, ast.Constant) and v.value is None: return b, "(DtPy.naive %s)" % t, "Dt"
                if isinstance(v, ast.Name) and v.id == "self": return b, "(DtPy.attach %s)" % t, "Dt"
                raise Untranslatable("replace(tzinfo=...)")
            if f.attr == "total_seconds" and ty == "TD" and not e.args:
                return b, "(DtPy.totalSeconds %s)" % t, "Ts"
            raise Untranslatable("method .%s on %s" % (f.attr, ty))
        raise Untranslatable("call")

    def user_call(self, sp, e, with_self=True):
        fn = find_function(getattr(sp, "tree", self.tree), sp.qualname)
        formals = [a.arg for a in fn.args.args if a.arg != "self"]
        defaults = fn.args.defaults
        actual = list(e.args)
        for kw in e.keywords:
            if kw.arg is None or kw.arg not in formals or formals.index(kw.arg) != len(actual):
                raise Untranslatable("keyword arguments in call to %s" % sp.qualname)
            actual.append(kw.value)
        if len(actual) < len(formals):
            missing = len(formals) - len(actual)
            if missing > len(defaults): raise Untranslatable("arity of %s" % sp.qualname)
            actual += defaults[len(defaults) - missing:]
        binds, args = [], []
        for a, (pn, pt) in zip(actual, sp.params):
            b, t, ty = self.expr(a)
            binds += b
            args.append(self.coerce(t, ty, pt))
        n = self.fresh()
        head = sp.leanname + (" self" if sp.self_type else "")
        return binds + [(n, "%s %s" % (head, " ".join(args)), sp.ret)], n, sp.ret

    # ------------------------------------------------------------------ conditions
    def rbool(self, e):
        """Lean text of type `Py.R Bool` evaluating `e` with Python's evaluation order"""
        if isinstance(e, ast.BoolOp):
            first, rest = e.values[0], e.values[1:]
            rest_e = rest[0] if len(rest) == 1 else ast.BoolOp(op=e.op, values=rest)
            if isinstance(e.op, ast.And):
                return "(Except.bind %s fun b => if b = true then %s else .ok false)" % (self.rbool(first), self.rbool(rest_e))
            return "(Except.bind %s fun b => if b = true then .ok true else %s)" % (self.rbool(first), self.rbool(rest_e))
        if isinstance(e, ast.UnaryOp) and isinstance(e.op, ast.Not):
            return "(Except.bind %s fun b => .ok (!b))" % self.rbool(e.operand)
        if isinstance(e, ast.Compare) and len(e.ops) > 1:
            parts, left = [], e.left
            for op, right in zip(e.ops, e.comparators):
                parts.append(ast.Compare(left=left, ops=[op], comparators=[right]))
                left = right
            return self.rbool(ast.BoolOp(op=ast.And(), values=parts))
        b, c = self.cond(e, allow_rbool=False)
        text = ".ok (decide %s)" % c
        for (n, rexpr, ty) in reversed(b):
            self.types[n] = ty
            text = "Except.bind (%s) fun %s => %s" % (rexpr, n, text)
        return "(%s)" % text

    def needs_rbool(self, e):
        """does a later operand of a short-circuit operator (or chained comparison) contain something that can raise?"""
        def raising(x):
            saved, tmp = dict(self.types), self.tmp
            try:
                if isinstance(x, (ast.BoolOp, ast.Compare)) or (isinstance(x, ast.UnaryOp) and isinstance(x.op, ast.Not)):
                    return bool(self.cond(x, allow_rbool=False)[0])
                return bool(self.expr(x)[0])
            finally:
                self.types, self.tmp = saved, tmp
        if isinstance(e, ast.BoolOp):
            return any(raising(v) for v in e.values[1:]) or any(self.needs_rbool(v) for v in e.values)
        if isinstance(e, ast.UnaryOp) and isinstance(e.op, ast.Not):
            return self.needs_rbool(e.operand)
        if isinstance(e, ast.Compare) and len(e.ops) > 1:
            return any(raising(v) for v in e.comparators[1:])
        return False

    def cond(self, e, allow_rbool=True):
        if allow_rbool and self.needs_rbool(e):
            n = self.fresh()
            return [(n, self.rbool(e), "Bool")], "(%s = true)" % n
        if isinstance(e, ast.BoolOp):
            op = " ∧ " if isinstance(e.op, ast.And) else " ∨ "
            binds, parts = [], []
            for v in e.values:
                b, t = self.cond(v, allow_rbool)
                binds += b; parts.append(t)
            return binds, "(" + op.join(parts) + ")"
        if isinstance(e, ast.UnaryOp) and isinstance(e.op, ast.Not):
            b, t = self.cond(e.operand, allow_rbool)
            return b, "(¬ %s)" % t
        if isinstance(e, ast.Compare):
            binds, parts = [], []
            bl, l, tl = self.expr(e.left)
            binds += bl
            for op, right in zip(e.ops, e.comparators):
                if isinstance(op, (ast.Is, ast.IsNot)):
                    neg = isinstance(op, ast.IsNot)
                    if isinstance(right, ast.Constant) and right.value is None:
                        if isinstance(tl, str) and tl.startswith("Opt"):
                            parts.append("(%s %s none)" % (l, "≠" if neg else "="))
                        else:                       # a value that is never None
                            parts.append("True" if neg else "False")
                        continue
                    if isinstance(right, ast.Name) and right.id == "self" and tl == "DtTz":
                        parts.append("(%s = %s)" % (l, "false" if neg else "true"))
                        continue
                    raise Untranslatable("`is` comparison")
                br, r, tr = self.expr(right)
                binds += br
                sym = {ast.Lt: "<", ast.LtE: "≤", ast.Gt: ">", ast.GtE: "≥", ast.Eq: "=", ast.NotEq: "≠"}.get(type(op))
                if sym is None: raise Untranslatable("comparison %s" % type(op).__name__)
                if tl == "Dt" and tr == "Dt":
                    parts.append("(%s.us %s %s.us)" % (l, sym, r))
                elif {tl, tr} == {"Int", "Ts"} or (tl == "Ts" and tr == "Ts"):
                    parts.append("(%s %s %s)" % (self.coerce(l, tl, "Ts"), sym, self.coerce(r, tr, "Ts")))
                elif tl == tr and tl in ("Int", "TD", "Bool"):
                    parts.append("(%s %s %s)" % (l, sym, r))
                elif {tl, tr} <= {"Int", "Bool"}:
                    parts.append("(%s %s %s)" % (self.coerce(l, tl, "Int"), sym, self.coerce(r, tr, "Int")))
                else:
                    raise Untranslatable("comparison of %s with %s" % (tl, tr))
                l, tl = r, tr
            return binds, parts[0] if len(parts) == 1 else "(" + " ∧ ".join(parts) + ")"
        # dt.tzinfo is [not] self
        b, t, ty = self.expr(e)
        if ty == "Bool": return b, "(%s = true)" % t
        if ty in ("Int", "TD"): return b, "(%s ≠ 0)" % t
        if ty in ("IntList", "TTList"): return b, "(%s ≠ [])" % t
        if ty in ("OptTT", "OptTrans"): return b, "(%s ≠ none)" % t
        raise Untranslatable("truth value of %s" % (ty,))

    # `dt.tzinfo is not self`
    def expr_tzinfo(self, e):
        return isinstance(e, ast.Attribute) and e.attr == "tzinfo"

    # ------------------------------------------------------------------ statements
    def block(self, stmts, k, ind):
        pad = "  " * ind
        if stmts:
            s, rest = stmts[0], stmts[1:]
            if isinstance(s, ast.Return):
                if s.value is None: raise Untranslatable("bare return")
                v = s.value
                b, t, ty = self.expr(v)
                if b and b[-1][0] == t and ty == self.spec.ret:      # tail call: no re-wrapping
                    return self.wrap(b[:-1], pad, "%s%s" % (pad, b[-1][1]))
                return self.wrap(b, pad, "%s.ok %s" % (pad, self.coerce(t, ty, self.spec.ret)))
            if isinstance(s, ast.AugAssign) and isinstance(s.target, ast.Name) and self.types.get(s.target.id) in ("Dt", "TD"):
                fake = ast.BinOp(left=ast.Name(id=s.target.id), op=s.op, right=s.value)
                b, val, ty = self.expr(fake)
                if ty != self.types[s.target.id]: raise Untranslatable("augmented assignment changes type")
                return self.wrap(b, pad, "%slet %s := %s\n%s" % (pad, s.target.id, val, self.block(rest, k, ind)))
            if isinstance(s, ast.Assign) and len(s.targets) == 1 and isinstance(s.targets[0], ast.Tuple):
                b, v, ty = self.expr(s.value)
                names = [x.id for x in s.targets[0].elts if isinstance(x, ast.Name)]
                if ty == "OptTrans" and len(names) == 2:
                    for n in names: self.types[n] = "Dt"
                    return self.wrap(b, pad, "%sExcept.bind (DtPy.unpack2 %s) fun (%s) =>\n%s" % (
                        pad, v, ", ".join(names), self.block(rest, k, ind)))
        return TB.BTr.block(self, stmts, k, ind)

    def type_of_first_assignment(self, s, v):
        for n in ast.walk(s):
            if isinstance(n, ast.Assign) and len(n.targets) == 1 and isinstance(n.targets[0], ast.Name) \
                    and n.targets[0].id == v and isinstance(n.value, ast.Call) and isinstance(n.value.func, ast.Name) \
                    and n.value.func.id == "int":
                return "Int"
        return TB.BTr.type_of_first_assignment(self, s, v)

    def is_none_test(self, t):
        """`x is None` on an optional-int variable -> the variable name"""
        if isinstance(t, ast.Compare) and len(t.ops) == 1 and isinstance(t.ops[0], ast.Is) and isinstance(t.left, ast.Name) \
                and isinstance(t.comparators[0], ast.Constant) and t.comparators[0].value is None \
                and self.types.get(t.left.id) in NARROW:
            return t.left.id
        return None

    def static_cond(self, t):
        """True/False when the test is decided by the types alone (`dt is None` for a datetime), else None"""
        try:
            saved, tmp = dict(self.types), self.tmp
            b, c = self.cond(t)
            self.types, self.tmp = saved, tmp
        except Untranslatable:
            return None
        c = c.strip("()")
        if not b and c == "False": return False
        if not b and c == "True": return True
        return None

    def if_stmt(self, s, rest, k, ind):
        pad = "  " * ind
        # dead branches: the test is decided by the types
        sc = self.static_cond(s.test)
        if sc is False: return self.block(s.orelse + rest, k, ind)
        if sc is True: return self.block(s.body + rest, k, ind)
        # `if x is None: A [else: B]` / `if x is None or c: A [else: B]` on an optional int: a narrowing match
        x, extra = self.is_none_test(s.test), None
        if x is None and isinstance(s.test, ast.BoolOp) and isinstance(s.test.op, ast.Or):
            x = self.is_none_test(s.test.values[0])
            if x is not None:
                extra = s.test.values[1] if len(s.test.values) == 2 else ast.BoolOp(op=ast.Or(), values=s.test.values[1:])
        if x is not None:
            if not (not rest or self.has_escape(s.body) or self.has_escape(s.orelse)
                    or (s.body and isinstance(s.body[-1], ast.Raise))):
                raise Untranslatable("`%s is None` test whose branches rejoin" % x)
            saved = dict(self.types)
            self.types.pop(x)        # in this branch the name holds None until it is assigned again
            none_branch = self.block(s.body + rest, k, ind + 1)
            self.types = dict(saved); self.types[x] = NARROW[saved[x]]
            if extra is None:
                some_branch = self.block(s.orelse + rest, k, ind + 1)
            else:
                some_branch = self.if_stmt(ast.If(test=extra, body=s.body, orelse=s.orelse), rest, k, ind + 1)
            self.types = saved
            return "%smatch %s with\n%s| none =>\n%s\n%s| some %s =>\n%s" % (pad, x, pad, none_branch, pad, x, some_branch)
        return TB.BTr.if_stmt(self, s, rest, k, ind)

    def function(self):
        sp = self.spec
        fn = find_function(self.tree, sp.qualname)
        formals = [a.arg for a in fn.args.args if a.arg != "self"]
        if formals != [n for n, _ in sp.params]:
            raise Untranslatable("signature of %s is %s" % (sp.qualname, formals))
        for node in ast.walk(fn):          # Python names that are Lean keywords
            if isinstance(node, ast.Name) and node.id in LEAN_KEYWORDS: node.id = node.id + "_"
            if isinstance(node, ast.arg) and node.arg in LEAN_KEYWORDS: node.arg = node.arg + "_"
        params = (["(self : %s)" % sp.self_type] if sp.self_type else []) + \
            ["(%s : %s)" % (n, TB.lean_ty(t)) for n, t in sp.params]
        body = self.block(fn.body, None, 1)
        text = "/-- translated from `%s` -/\ndef %s %s : Py.R %s :=\n%s\n" % (
            sp.qualname, sp.leanname, " ".join(params), TB.lean_rty(sp.ret), body)
        return text, hashlib.sha256(ast.dump(fn).encode()).hexdigest()[:16]


def translate_files(src_root, groups):
    """groups: [(relfile, [DFn...])] -> (lean text, fingerprints)"""
    parts, fps = [], {}
    allspecs = [sp for _, specs in groups for sp in specs]
    for relfile, specs in groups:
        tree = ast.parse(open(os.path.join(src_root, relfile)).read())
        for sp in specs:
            sp.tree = tree
        for sp in specs:
            text, fp = DTr(tree, allspecs, sp).function()
            parts.append(text)
            fps[sp.qualname] = fp
    return "\n".join(parts), fps


F, R, G = "TZ.TzFile", "TZ.RangeZone", "TZ.GenericZone"
TZ_GROUPS = [
    ("tz/tz.py", [
        DFn("_datetime_to_timestamp", "datetimeToTimestamp", [("dt", "Dt")], "Ts"),
        DFn("tzfile._find_last_transition", "tzfile_findLastTransition", [("dt", "Dt"), ("in_utc", "Bool")], "OptInt", F),
        DFn("tzfile._get_ttinfo", "tzfile_getTtinfo", [("idx", "OptInt")], "OptTT", F),
        DFn("tzfile._resolve_ambiguous_time", "tzfile_resolveAmbiguousTime", [("dt", "Dt")], "OptInt", F),
        DFn("tzfile._find_ttinfo", "tzfile_findTtinfo", [("dt", "Dt")], "OptTT", F),
        DFn("tzfile._offset_before", "tzfile_offsetBefore", [("idx", "Int")], "Int", F),
        DFn("tzfile.is_ambiguous", "tzfile_isAmbiguous", [("dt", "Dt"), ("idx", "OptInt")], "Bool", F),
        DFn("tzfile.fromutc", "tzfile_fromutc", [("dt", "Dt")], "Dt", F),
        DFn("tzfile.utcoffset", "tzfile_utcoffset", [("dt", "Dt")], "TD", F),
        DFn("tzfile.dst", "tzfile_dst", [("dt", "Dt")], "TD", F),
        DFn("tzfile.tzname", "tzfile_tzname", [("dt", "Dt")], "OptStr", F),
    ]),
    ("tz/_common.py", [
        DFn("tzrangebase._dst_base_offset", "tzrange_dstBaseOffset", [], "TD", R, prop=True),
        DFn("tzrangebase._naive_isdst", "tzrange_naiveIsdst", [("dt", "Dt"), ("transitions", ("Dt", "Dt"))], "Bool", R),
        DFn("tzrangebase.is_ambiguous", "tzrange_isAmbiguous", [("dt", "Dt")], "Bool", R),
        DFn("tzrangebase._isdst", "tzrange_isdst", [("dt", "Dt")], "Bool", R),
        DFn("tzrangebase.utcoffset", "tzrange_utcoffset", [("dt", "Dt")], "TD", R),
        DFn("tzrangebase.dst", "tzrange_dst", [("dt", "Dt")], "TD", R),
        DFn("tzrangebase.tzname", "tzrange_tzname", [("dt", "Dt")], "Str", R),
        DFn("tzrangebase.fromutc", "tzrange_fromutc", [("dt", "Dt")], "Dt", R),
        # the generic base class (tzlocal, tzical): over abstract utcoffset/dst of the zone record
        DFn("_tzinfo.is_ambiguous", "tzinfo_isAmbiguous", [("dt", "Dt")], "Bool", G),
        DFn("_tzinfo._fold_status", "tzinfo_foldStatus", [("dt_utc", "Dt"), ("dt_wall", "Dt")], "Int", G),
        DFn("_tzinfo._fromutc", "tzinfo_fromutcWall", [("dt", "Dt")], "Dt", G),
        DFn("_tzinfo.fromutc", "tzinfo_fromutc", [("dt", "Dt")], "Dt", G),
    ]),
]

if __name__ == "__main__":
    import sys
    root = sys.argv[1] if len(sys.argv) > 1 else "/repo/src/dateutil"
    text, fps = translate_files(root, TZ_GROUPS)
    print(text)
