"""icaloneoff.py — C04 for tzical zones built from ONE-OFF components (wt-tzfile, seeded C04J): a STANDARD / DAYLIGHT component that has
only a DTSTART (no RRULE), or a DTSTART plus RDATE lines, is in force from its onset(s) on — Moscow-like (+3 -> +4 in 2011 -> +3 in 2014) and
Caracas-like (-4 -> -4:30 -> -4) histories.  The offset and abbreviation reported for a converted instant must be those WRITTEN in the
component in force (latest onset <= the instant; probes stay two days away from every onset), and the wall time must be utc + that offset."""
import datetime, io, warnings

ONE_OFF = [
    # (name, [(kind, onset local, offset from, offset to, abbr, extra RDATE onsets)])
    ("moscow-like", [("STANDARD", (1992, 1, 19, 2), 7200, 10800, "MSK", []), ("STANDARD", (2011, 3, 27, 2), 10800, 14400, "MSK4", []),
                     ("STANDARD", (2014, 10, 26, 2), 14400, 10800, "MSK3", [])]),
    ("caracas-like", [("STANDARD", (1965, 1, 1, 0), -16060, -14400, "VET", []), ("STANDARD", (2007, 12, 9, 3), -14400, -16200, "VET430", []),
                      ("STANDARD", (2016, 5, 1, 2, 30), -16200, -14400, "VET4", [])]),
    ("one-off-daylight", [("STANDARD", (1990, 1, 1, 0), 0, 3600, "STD", []), ("DAYLIGHT", (2005, 6, 1, 2), 3600, 7200, "ONCE", []),
                          ("STANDARD", (2005, 9, 1, 3), 7200, 3600, "BACK", [])]),
    ("rdate-recurs", [("STANDARD", (1980, 1, 1, 0), 19800, 19800, "IST", [(2010, 1, 1, 0)]), ("STANDARD", (2000, 1, 1, 0), 19800, 23400, "IST630", []),
                      ]),
    ("half-hours", [("STANDARD", (1970, 1, 1, 0), -12600, -12600, "NST", []), ("DAYLIGHT", (1999, 4, 4, 2), -12600, -9000, "NDT", [(2003, 4, 6, 2)]),
                    ("STANDARD", (1999, 10, 31, 2), -9000, -12600, "NST2", [(2003, 10, 26, 2)])]),
]


def off4(s):
    sign = "+" if s >= 0 else "-"
    s = abs(s)
    return "%s%02d%02d%s" % (sign, s // 3600, s % 3600 // 60, ("%02d" % (s % 60)) if s % 60 else "")


def stamp(t):
    t = tuple(t) + (0,) * (6 - len(t))
    return "%04d%02d%02dT%02d%02d%02d" % t[:6]


def text_of(name, comps, variant):
    out = ["BEGIN:VCALENDAR", "BEGIN:VTIMEZONE", "TZID:Test/%s" % name]
    for kind, onset, ofrom, oto, abbr, extra in comps:
        out += ["BEGIN:%s" % kind, "DTSTART:%s" % stamp(onset), "TZOFFSETFROM:%s" % off4(ofrom), "TZOFFSETTO:%s" % off4(oto), "TZNAME:%s" % abbr]
        if variant == "rdate-repeats-dtstart" or extra:
            out.append("RDATE:" + ",".join(stamp(x) for x in ([onset] if variant == "rdate-repeats-dtstart" else []) + list(extra)))
        out.append("END:%s" % kind)
    out += ["END:VTIMEZONE", "END:VCALENDAR"]
    return "\r\n".join(out) + "\r\n"


def cases():
    for name, comps in ONE_OFF:
        for variant in ("dtstart-only", "rdate-repeats-dtstart"):
            onsets = []
            for kind, onset, ofrom, oto, abbr, extra in comps:
                for o in [onset] + list(extra):
                    t = tuple(o) + (0,) * (6 - len(o))
                    onsets.append((datetime.datetime(*t[:6]) - datetime.timedelta(seconds=ofrom), oto, abbr))
            onsets.sort()
            yield name, variant, text_of(name, comps, variant), onsets


def check(text, onsets, report):
    """report(utc, got (off, abbr, wall), want (off, abbr)) for every probe that is wrong; returns the number of probes"""
    from dateutil import tz
    with warnings.catch_warnings():
        warnings.simplefilter("ignore")
        z = tz.tzical(io.StringIO(text)).get()
    n = 0
    for i, (u0, off, abbr) in enumerate(onsets):
        nxt = onsets[i + 1][0] if i + 1 < len(onsets) else u0 + datetime.timedelta(days=4000)
        for u in (u0 + datetime.timedelta(days=2), u0 + (nxt - u0) / 2, nxt - datetime.timedelta(days=2), u0 + datetime.timedelta(days=400)):
            u = u.replace(microsecond=0)
            if not (u0 + datetime.timedelta(days=2) <= u <= nxt - datetime.timedelta(days=2)):
                continue
            n += 1
            with warnings.catch_warnings():
                warnings.simplefilter("ignore")
                loc = u.replace(tzinfo=tz.UTC).astimezone(z)
            got = (loc.utcoffset().total_seconds(), loc.tzname(), loc.replace(tzinfo=None))
            if got[0] != off or got[1] != abbr or got[2] != u + datetime.timedelta(seconds=off):
                report(u, got, (off, abbr))
    return n


def oracle(ctx):
    for name, variant, text, onsets in cases():
        bad = []
        try:
            n = check(text, onsets, lambda u, got, want: bad.append((u, got, want)))
        except Exception as ex:
            ctx.case(("ical-one-off", name, variant))
            ctx.violation("tzical rejects / fails on a VTIMEZONE of one-off components (%s, %s): %s" % (name, variant, type(ex).__name__),
                          {"kind": "ical-one-off", "zone": name, "variant": variant}, text)
            continue
        for _ in range(n):
            ctx.case(("ical-one-off", name, variant, _))
        ctx.count("ical_one_off_zones:" + variant)
        for u, got, want in bad[:1]:
            ctx.violation("tzical zone %s (%s) at %sZ reports offset %+d s (%s), wall %s; the component in force states %+d s (%s)" % (
                name, variant, u.isoformat(), got[0], got[1], got[2].isoformat(), want[0], want[1]),
                {"kind": "ical-one-off", "zone": name, "variant": variant, "utc": u.isoformat()}, text)


def replay(payload):
    c = payload["violation"]["case"]
    for name, variant, text, onsets in cases():
        if name == c["zone"] and variant == c["variant"]:
            bad = []
            check(text, onsets, lambda u, got, want: bad.append((u, got, want)))
            for u, got, want in bad[:3]:
                print("%sZ: reports %+d s (%s), stated %+d s (%s)" % (u.isoformat(), got[0], got[1], want[0], want[1]))
            return not bad
    return True
