#!/usr/bin/env python3
"""
translate_bytes.py — Python AST -> Lean 4 for "BytesPy": the fragment of Python in which
dateutil's ISO-8601 scanners are written.

Values and types
  Int      Python int locals                      Bool     comparison results / flags (`has_sep`)
  Bytes    `bytes` (List Nat, one entry per byte) OptBytes `self._sep` (None or bytes)
  Comps    list of components (List BytesPy.Comp: int | None | tzinfo)
  Date     `datetime.date` as its ordinal (Int)   TD       `timedelta(days=n)` as the day count (Int)
  Off      tzinfo (IsoT.Off)                      Value    aware/naive datetime (IsoT.Value)
  Time     `datetime.time` as its validated component list
  Match    result of `_FRACTION_REGEX.match`      tuples of the above

Expressions: int literals, names, `+ - * // % **`, `len(x)`, slices `x[a:b]`, `x[a:]`, `x[:b]` (Python
clamping, via BytesPy.slice), bytes literals, class constants (`self._DATE_SEP`, inlined from the class
body), `==`/`!=`/`<`… (chained), `and/or/not`, `x in b'..'`, `len(x) not in {..}`, `a if c else b`,
`int + bool`, `x.isdigit()`, `int(x)` on bytes (BytesPy.pyInt, can raise), list literals, `l[i]`,
`l[a:b]`, `any(<cond> for v in <list>)`, `date(y,m,d)`, `timedelta(days=e)`, `date ± timedelta`,
`d.isocalendar()[i]`, `d.year/.month/.day`, `calendar.isleap(y)`, `tz.UTC`, `tz.tzoffset(None, e)`,
`datetime(*l)`, `datetime + timedelta(days=e)`, `m.group()`, `m.group(1)`, calls to other translated
functions (defaults filled in).  Sub-expressions that can raise are hoisted (A-normal form) into
`Except.bind`s in evaluation order.

Statements: assignment (names, tuple unpacking of a call result, `l[i] = e`), augmented assignment
(ints, `pos += has_sep`, `l += call`), `if/elif/else`, `return`, `raise E(...)`, `while` (one level, with
`break`/`continue`, translated to a fuel-bounded recursive function; running out of fuel is the
distinguished error `NotImplemented`, which the implementation never raises, so an insufficient bound
is visible to the differential validation), `try: <one statement> except K: <handler>`.

Control-flow scheme (everything lives in `Except PyErr`):
  if with no code after it, or containing return/break/continue on some path
                      ↦  if c then ⟦A ; rest⟧ else ⟦B ; rest⟧          (rest duplicated)
  other if            ↦  Except.bind (if c then ⟦A⟧;ok vs else ⟦B⟧;ok vs) (fun vs => ⟦rest⟧)
                         (vs = names assigned in A or B)
  x = raising e       ↦  Except.bind ⟦e⟧ (fun x => ⟦rest⟧)
Anything else raises Untranslatable(<named construct>): a broken tie.
"""
import ast, os, hashlib
from translate import Untranslatable, find_function

ERRS = {"ValueError", "IndexError", "OverflowError", "TypeError"}
HANDLER_KINDS = {"ValueError": "ValueError", "OverflowError": "OverflowError", "TypeError": "TypeError",
                 "IndexError": "IndexError", "UnicodeEncodeError": "UnicodeError"}
LEAN_TY = {"Int": "Int", "Bool": "Bool", "Bytes": "BytesPy.Bytes", "OptBytes": "Option BytesPy.Bytes",
           "Comps": "List BytesPy.Comp", "Comp": "BytesPy.Comp", "Date": "Int", "TD": "Int", "Off": "IsoT.Off",
           "Value": "IsoT.Value", "Match": "Option (BytesPy.Bytes × BytesPy.Bytes)", "Time": "List BytesPy.Comp", "PyVal": "BytesPy.PyVal"}
DEFAULT = {"Int": "0", "Bool": "false", "Bytes": "[]", "Comps": "[]", "Date": "0", "TD": "0",
           "Off": "IsoT.Off.utc", "Match": "none", "Comp": "BytesPy.Comp.none"}


def lean_ty(t):
    if isinstance(t, tuple):
        return "(" + " × ".join(lean_ty(x) for x in t) + ")"
    return LEAN_TY[t]


def lean_rty(t):
    s = lean_ty(t)
    return s if (" " not in s or s.startswith("(")) else "(%s)" % s


class BFn:
    """one function to translate"""
    def __init__(self, qualname, leanname, params, ret, self_attrs=None, fuel=None, closure=None):
        self.qualname = qualname      # e.g. "isoparser._parse_tzstr" or "_parse_digits"
        self.leanname = leanname
        self.params = params          # [(pyname, type)] excluding self
        self.ret = ret                # type of the returned value
        self.self_attrs = self_attrs or {}   # attr -> type, passed as parameters self_<attr>
        self.fuel = fuel              # bound for the `while` loop, if any
        self.closure = closure        # name of a free variable bound by an enclosing function: a method on bytes


class BTr:
    def __init__(self, tree, specs, spec):
        self.tree = tree
        self.specs = {s.qualname.split(".")[-1]: s for s in specs}
        self.spec = spec
        self.types = {}
        self.tmp = 0
        self.aux = []          # auxiliary definitions (loops)
        self.loop = None       # (continue_text, break_text)
        self.loop_carried = []
        for n, t in spec.params:
            self.types[n] = t
        for a, t in spec.self_attrs.items():
            self.types["self_" + a] = t
        self.consts = {}       # class-level bytes constants
        cls = spec.qualname.split(".")[0] if "." in spec.qualname else None
        if cls:
            for node in ast.walk(tree):
                if isinstance(node, ast.ClassDef) and node.name == cls:
                    for st in node.body:
                        if isinstance(st, ast.Assign) and len(st.targets) == 1 and isinstance(st.targets[0], ast.Name) \
                                and isinstance(st.value, ast.Constant) and isinstance(st.value.value, bytes):
                            self.consts[st.targets[0].id] = st.value.value
                        if isinstance(st, ast.Assign) and len(st.targets) == 1 and isinstance(st.targets[0], ast.Name) \
                                and isinstance(st.value, ast.Call) and isinstance(st.value.func, ast.Attribute) \
                                and st.value.func.attr == "compile" and st.value.args \
                                and isinstance(st.value.args[0], ast.Constant):
                            self.consts[st.targets[0].id] = ("regex", st.value.args[0].value)

    # ------------------------------------------------------------------ helpers
    def fresh(self):
        self.tmp += 1
        return "t%d" % self.tmp

    @staticmethod
    def bytes_lit(b):
        return "[" + ", ".join(str(x) for x in b) + "]"

    def self_attr(self, e):
        return isinstance(e, ast.Attribute) and isinstance(e.value, ast.Name) and e.value.id == "self"

    # ------------------------------------------------------------------ expressions
    # returns (binds, text, type); binds = [(name, lean R-expression)] in evaluation order
    def expr(self, e):
        if isinstance(e, ast.Constant):
            v = e.value
            if v is True: return [], "true", "Bool"
            if v is False: return [], "false", "Bool"
            if v is None: return [], "BytesPy.Comp.none", "Comp"
            if isinstance(v, int): return [], (str(v) if v >= 0 else "(%d)" % v), "Int"
            if isinstance(v, bytes): return [], self.bytes_lit(v), "Bytes"
            raise Untranslatable("constant %r" % (v,))
        if isinstance(e, ast.Name):
            if e.id not in self.types:
                raise Untranslatable("unbound or untyped name %s" % e.id)
            return [], e.id, self.types[e.id]
        if self.self_attr(e):
            if e.attr in self.consts and isinstance(self.consts[e.attr], bytes):
                return [], self.bytes_lit(self.consts[e.attr]), "Bytes"
            if e.attr in self.spec.self_attrs:
                return [], "self_" + e.attr, self.spec.self_attrs[e.attr]
            raise Untranslatable("self.%s" % e.attr)
        if isinstance(e, ast.Attribute):
            if isinstance(e.value, ast.Name) and e.value.id == "tz" and e.attr == "UTC":
                return [], "IsoT.Off.utc", "Off"
            b, t, ty = self.expr(e.value)
            if ty == "Date" and e.attr in ("year", "month", "day"):
                return b, "(BytesPy.%s %s)" % (e.attr, t), "Int"
            raise Untranslatable("attribute .%s on %s" % (e.attr, ty))
        if isinstance(e, ast.UnaryOp):
            if isinstance(e.op, ast.USub):
                b, t, ty = self.expr(e.operand)
                if ty != "Int": raise Untranslatable("unary minus on %s" % ty)
                return b, "(-%s)" % t, "Int"
            if isinstance(e.op, ast.Not):
                b, t = self.cond(e.operand)
                return b, "(decide (¬ %s))" % t, "Bool"
            raise Untranslatable("unary %s" % type(e.op).__name__)
        if isinstance(e, ast.BinOp):
            return self.binop(e)
        if isinstance(e, (ast.Compare, ast.BoolOp)):
            b, t = self.cond(e)
            return b, "(decide %s)" % t, "Bool"
        if isinstance(e, ast.IfExp):
            bc, c = self.cond(e.test)
            b1, t1, ty1 = self.expr(e.body)
            b2, t2, ty2 = self.expr(e.orelse)
            if b1 or b2: raise Untranslatable("raising sub-expression inside a conditional expression")
            if ty1 != ty2: raise Untranslatable("conditional expression of mixed type")
            return bc, "(if %s then %s else %s)" % (c, t1, t2), ty1
        if isinstance(e, ast.Subscript):
            return self.subscript(e)
        if isinstance(e, ast.List):
            binds, items = [], []
            for el in e.elts:
                b, t, ty = self.expr(el)
                binds += b
                items.append(self.as_comp(t, ty))
            return binds, "[" + ", ".join(items) + "]", "Comps"
        if isinstance(e, ast.Call):
            return self.call(e)
        raise Untranslatable(type(e).__name__)

    def as_comp(self, t, ty):
        if ty == "Int": return "BytesPy.Comp.int %s" % t
        if ty == "Off": return "BytesPy.Comp.tz %s" % t
        if ty == "Comp": return t
        raise Untranslatable("list element of type %s" % ty)

    def as_int(self, t, ty):
        if ty == "Int": return t
        if ty == "Bool": return "(BytesPy.b2i %s)" % t
        raise Untranslatable("%s used as an integer" % ty)

    def binop(self, e):
        bl, l, tl = self.expr(e.left)
        br, r, tr = self.expr(e.right)
        binds = bl + br
        op = e.op
        if tl == "Date" and tr == "TD" and isinstance(op, (ast.Add, ast.Sub)):
            n = self.fresh()
            arg = r if isinstance(op, ast.Add) else "(-%s)" % r
            return binds + [(n, "BytesPy.dateAdd %s %s" % (l, arg), "Date")], n, "Date"
        if tl == "Value" and tr == "TD" and isinstance(op, ast.Add):
            n = self.fresh()
            return binds + [(n, "BytesPy.dtAddDays %s %s" % (l, r), "Value")], n, "Value"
        if tl in ("Int", "Bool") and tr in ("Int", "Bool"):
            l, r = self.as_int(l, tl), self.as_int(r, tr)
            if isinstance(op, ast.Add): return binds, "(%s + %s)" % (l, r), "Int"
            if isinstance(op, ast.Sub): return binds, "(%s - %s)" % (l, r), "Int"
            if isinstance(op, ast.Mult): return binds, "(%s * %s)" % (l, r), "Int"
            if isinstance(op, ast.Pow): return binds, "(BytesPy.ipow %s %s)" % (l, r), "Int"
            poslit = isinstance(e.right, ast.Constant) and isinstance(e.right.value, int) and e.right.value > 0
            if isinstance(op, ast.FloorDiv):
                return binds, ("(%s / %s)" if poslit else "(Py.fdiv %s %s)") % (l, r), "Int"
            if isinstance(op, ast.Mod):
                return binds, ("(%s %% %s)" if poslit else "(Py.fmod %s %s)") % (l, r), "Int"
        raise Untranslatable("binop %s on %s, %s" % (type(op).__name__, tl, tr))

    def subscript(self, e):
        b, t, ty = self.expr(e.value)
        sl = e.slice
        if isinstance(sl, ast.Slice):
            if sl.step is not None: raise Untranslatable("slice step")
            if ty not in ("Bytes", "Comps"): raise Untranslatable("slice of %s" % ty)
            if sl.lower is None:
                lo, blo = "0", []
            else:
                blo, lo, tlo = self.expr(sl.lower)
                lo = self.as_int(lo, tlo)
            if sl.upper is None:
                return b + blo, "(BytesPy.sliceFrom %s %s)" % (t, lo), ty
            bhi, hi, thi = self.expr(sl.upper)
            hi = self.as_int(hi, thi)
            return b + blo + bhi, "(BytesPy.slice %s %s %s)" % (t, lo, hi), ty
        bi, i, ti = self.expr(sl)
        i = self.as_int(i, ti)
        if ty == "Comps":
            return b + bi, "(BytesPy.lget %s %s)" % (t, i), "Comp"
        if ty == "IsoCal":
            return b + bi, "(BytesPy.isocal %s %s)" % (t, i), "Int"
        raise Untranslatable("index into %s" % ty)

    def call(self, e):
        f = e.func
        if isinstance(f, ast.Call) and isinstance(f.func, ast.Name) and f.func.id == "getattr" and not e.args \
                and not e.keywords and len(f.args) == 3 and isinstance(f.args[0], ast.Name) \
                and isinstance(f.args[1], ast.Constant) and f.args[1].value == "read" \
                and isinstance(f.args[2], ast.Lambda) and not f.args[2].args.args \
                and isinstance(f.args[2].body, ast.Name) and f.args[2].body.id == f.args[0].id:
            b, t, ty = self.expr(f.args[0])
            if ty != "PyVal": raise Untranslatable("getattr(.., 'read', ..) on %s" % ty)
            return b, "(BytesPy.readAll %s)" % t, "PyVal"
        if isinstance(f, ast.Name) and self.spec.closure == f.id:
            # f(self, x, *args, **kwargs): the wrapped method applied to the (bytes) value
            pos = [a for a in e.args if not isinstance(a, ast.Starred)]
            if len(pos) != 2 or not (isinstance(pos[0], ast.Name) and pos[0].id == "self"):
                raise Untranslatable("call of the wrapped method")
            b, t, ty = self.expr(pos[1])
            if ty != "PyVal": raise Untranslatable("wrapped method applied to %s" % ty)
            n1, n2 = self.fresh(), self.fresh()
            return b + [(n1, "BytesPy.asBytes %s" % t, "Bytes"), (n2, "%s %s" % (f.id, n1), "Any")], n2, "Any"
        if isinstance(f, ast.Name):
            name = f.id
            if name == "isinstance" and len(e.args) == 2 and isinstance(e.args[1], ast.Attribute) \
                    and isinstance(e.args[1].value, ast.Name) and e.args[1].value.id == "six" and e.args[1].attr == "text_type":
                b, t, ty = self.expr(e.args[0])
                if ty != "PyVal": raise Untranslatable("isinstance on %s" % ty)
                return b, "(BytesPy.isText %s)" % t, "Bool"
            if name == "len" and len(e.args) == 1:
                b, t, ty = self.expr(e.args[0])
                if ty not in ("Bytes", "Comps"): raise Untranslatable("len of %s" % ty)
                return b, "(BytesPy.len %s)" % t, "Int"
            if name == "int" and len(e.args) == 1:
                b, t, ty = self.expr(e.args[0])
                if ty == "Int": return b, t, "Int"
                if ty == "Bytes":
                    n = self.fresh()
                    return b + [(n, "BytesPy.pyInt %s" % t, "Int")], n, "Int"
                raise Untranslatable("int(%s)" % ty)
            if name == "any" and len(e.args) == 1 and isinstance(e.args[0], ast.GeneratorExp):
                g = e.args[0]
                if len(g.generators) != 1 or g.generators[0].ifs or not isinstance(g.generators[0].target, ast.Name):
                    raise Untranslatable("generator expression")
                bl, l, tl = self.expr(g.generators[0].iter)
                if tl != "Comps": raise Untranslatable("any() over %s" % tl)
                v = g.generators[0].target.id
                saved = self.types.get(v)
                self.types[v] = "Comp"
                bc, c = self.cond(g.elt)
                if saved is None: del self.types[v]
                else: self.types[v] = saved
                if bc: raise Untranslatable("raising sub-expression inside any()")
                return bl, "(List.any %s (fun %s => decide %s))" % (l, v, c), "Bool"
            if name == "date" and len(e.args) == 3 and not e.keywords:
                binds, args = [], []
                for a in e.args:
                    b, t, ty = self.expr(a)
                    binds += b
                    args.append(self.as_int(t, ty))
                n = self.fresh()
                return binds + [(n, "BytesPy.date %s" % " ".join(args), "Date")], n, "Date"
            if name == "timedelta" and not e.args and len(e.keywords) == 1 and e.keywords[0].arg == "days":
                b, t, ty = self.expr(e.keywords[0].value)
                return b, self.as_int(t, ty), "TD"
            if name in ("date", "time") and len(e.args) == 1 and isinstance(e.args[0], ast.Starred) and not e.keywords:
                b, t, ty = self.expr(e.args[0].value)
                if ty != "Comps": raise Untranslatable("%s(*%s)" % (name, ty))
                n = self.fresh()
                rt = "Date" if name == "date" else "Time"
                return b + [(n, "BytesPy.%sStar %s" % (name, t), rt)], n, rt
            if name == "datetime" and len(e.args) == 1 and isinstance(e.args[0], ast.Starred):
                b, t, ty = self.expr(e.args[0].value)
                if ty != "Comps": raise Untranslatable("datetime(*%s)" % ty)
                n = self.fresh()
                return b + [(n, "BytesPy.datetimeStar %s" % t, "Value")], n, "Value"
            if name in self.specs:
                return self.user_call(self.specs[name], e)
            raise Untranslatable("call %s" % name)
        if isinstance(f, ast.Attribute):
            if self.self_attr(f) and f.attr in self.specs:
                return self.user_call(self.specs[f.attr], e)
            if isinstance(f.value, ast.Name) and f.value.id == "calendar" and f.attr == "isleap" and len(e.args) == 1:
                b, t, ty = self.expr(e.args[0])
                return b, "(BytesPy.isleap %s)" % self.as_int(t, ty), "Bool"
            if isinstance(f.value, ast.Name) and f.value.id == "tz" and f.attr == "tzoffset" and len(e.args) == 2 \
                    and isinstance(e.args[0], ast.Constant) and e.args[0].value is None:
                b, t, ty = self.expr(e.args[1])
                return b, "(IsoT.Off.fixed %s)" % self.as_int(t, ty), "Off"
            if f.attr == "match" and self.self_attr(f.value) and \
                    self.consts.get(f.value.attr) == ("regex", b"[\\.,]([0-9]+)") and len(e.args) == 1:
                b, t, ty = self.expr(e.args[0])
                if ty != "Bytes": raise Untranslatable("regex match on %s" % ty)
                return b, "(BytesPy.fractionMatch %s)" % t, "Match"
            if f.attr == "match":
                raise Untranslatable("regex %r" % (self.consts.get(getattr(f.value, "attr", None)),))
            b, t, ty = self.expr(f.value)
            if f.attr == "encode" and ty == "PyVal" and len(e.args) == 1 and isinstance(e.args[0], ast.Constant) \
                    and e.args[0].value == "ascii":
                n = self.fresh()
                return b + [(n, "BytesPy.encodeAscii %s" % t, "PyVal")], n, "PyVal"
            if f.attr == "isdigit" and ty == "Bytes" and not e.args:
                return b, "(BytesPy.isdigit %s)" % t, "Bool"
            if f.attr == "isocalendar" and ty == "Date" and not e.args:
                return b, t, "IsoCal"
            if f.attr == "group" and ty == "Match" and len(e.args) <= 1:
                idx = "0"
                if e.args:
                    if not (isinstance(e.args[0], ast.Constant) and e.args[0].value in (0, 1)):
                        raise Untranslatable("group index")
                    idx = str(e.args[0].value)
                return b, "(BytesPy.mgroup %s %s)" % (t, idx), "Bytes"
            raise Untranslatable("method .%s on %s" % (f.attr, ty))
        raise Untranslatable("call")

    def user_call(self, sp, e):
        fn = find_function(self.tree, sp.qualname)
        formals = [a.arg for a in fn.args.args if a.arg != "self"]
        defaults = fn.args.defaults
        actual = list(e.args)
        for kw in e.keywords:
            if kw.arg is None or kw.arg not in formals or formals.index(kw.arg) != len(actual):
                raise Untranslatable("keyword arguments in call to %s" % sp.qualname)
            actual.append(kw.value)
        if len(actual) < len(formals):
            missing = len(formals) - len(actual)
            if missing > len(defaults): raise Untranslatable("arity of %s" % sp.qualname)
            actual += defaults[len(defaults) - missing:]
        if sp.self_attrs:
            raise Untranslatable("call to %s, which reads instance state" % sp.qualname)
        binds, args = [], []
        for a, (pn, pt) in zip(actual, sp.params):
            b, t, ty = self.expr(a)
            if ty != pt: raise Untranslatable("argument %s of %s: %s for %s" % (pn, sp.qualname, ty, pt))
            binds += b
            args.append(t)
        n = self.fresh()
        return binds + [(n, "%s %s" % (sp.leanname, " ".join(args)), sp.ret)], n, sp.ret

    # Prop-valued condition: (binds, text)
    def cond(self, e):
        if isinstance(e, ast.BoolOp):
            op = " ∧ " if isinstance(e.op, ast.And) else " ∨ "
            binds, parts = [], []
            for v in e.values:
                b, t = self.cond(v)
                if b and parts: raise Untranslatable("raising sub-expression after a short-circuit operator")
                binds += b
                parts.append(t)
            return binds, "(" + op.join(parts) + ")"
        if isinstance(e, ast.UnaryOp) and isinstance(e.op, ast.Not):
            b, t = self.cond(e.operand)
            return b, "(¬ %s)" % t
        if isinstance(e, ast.Compare):
            binds, parts = [], []
            bl, l, tl = self.expr(e.left)
            binds += bl
            for op, right in zip(e.ops, e.comparators):
                if isinstance(op, (ast.In, ast.NotIn)):
                    neg = isinstance(op, ast.NotIn)
                    if isinstance(right, ast.Set) and tl == "Int":
                        alts = []
                        for el in right.elts:
                            b, t, ty = self.expr(el)
                            if b or ty != "Int": raise Untranslatable("set element")
                            alts.append("%s = %s" % (l, t))
                        p = "(" + " ∨ ".join(alts) + ")"
                    else:
                        br, r, tr = self.expr(right)
                        binds += br
                        if not (tl == "Bytes" and tr == "Bytes"): raise Untranslatable("`in` on %s, %s" % (tl, tr))
                        p = "(BytesPy.isIn %s %s = true)" % (l, r)
                    parts.append("(¬ %s)" % p if neg else p)
                    l, tl = None, None
                    continue
                if isinstance(op, (ast.Is, ast.IsNot)):
                    if not (isinstance(right, ast.Constant) and right.value is None and tl == "OptBytes"):
                        raise Untranslatable("`is` comparison")
                    parts.append("(%s %s none)" % (l, "=" if isinstance(op, ast.Is) else "≠"))
                    continue
                br, r, tr = self.expr(right)
                binds += br
                sym = {ast.Lt: "<", ast.LtE: "≤", ast.Gt: ">", ast.GtE: "≥", ast.Eq: "=", ast.NotEq: "≠"}.get(type(op))
                if sym is None: raise Untranslatable("comparison %s" % type(op).__name__)
                if tl == "Bytes" and tr == "OptBytes" and sym in ("=", "≠"):
                    parts.append("(some %s %s %s)" % (l, sym, r))
                elif tl == "Comp" and tr == "Int" and sym in ("=", "≠"):
                    parts.append("(%s %s BytesPy.Comp.int %s)" % (l, sym, r))
                elif tl == tr and (tl in ("Bytes", "Bool", "Comp") and sym in ("=", "≠") or tl == "Int"):
                    parts.append("(%s %s %s)" % (l, sym, r))
                elif {tl, tr} <= {"Int", "Bool"}:
                    parts.append("(%s %s %s)" % (self.as_int(l, tl), sym, self.as_int(r, tr)))
                else:
                    raise Untranslatable("comparison of %s with %s" % (tl, tr))
                l, tl = r, tr
            return binds, parts[0] if len(parts) == 1 else "(" + " ∧ ".join(parts) + ")"
        b, t, ty = self.expr(e)
        if ty == "Bool": return b, "(%s = true)" % t
        if ty == "Int": return b, "(%s ≠ 0)" % t
        if ty == "Match": return b, "(%s ≠ none)" % t
        raise Untranslatable("truth value of %s" % ty)

    # ------------------------------------------------------------------ statements
    def assigned(self, stmts):
        out = []
        def add(n):
            if n not in out: out.append(n)
        for s in stmts:
            if isinstance(s, ast.Assign):
                for t in s.targets:
                    for el in (t.elts if isinstance(t, ast.Tuple) else [t]):
                        if isinstance(el, ast.Name): add(el.id)
                        elif isinstance(el, ast.Subscript) and isinstance(el.value, ast.Name): add(el.value.id)
                        else: raise Untranslatable("assignment target")
            elif isinstance(s, ast.AugAssign):
                if isinstance(s.target, ast.Name): add(s.target.id)
                else: raise Untranslatable("augmented assignment target")
            elif isinstance(s, ast.If):
                for n in self.assigned(s.body) + self.assigned(s.orelse): add(n)
            elif isinstance(s, ast.Try):
                for n in self.assigned(s.body): add(n)
                for h in s.handlers:
                    for n in self.assigned(h.body): add(n)
            elif isinstance(s, ast.While):
                for n in self.assigned(s.body): add(n)
        return out

    def has_escape(self, stmts):
        for s in stmts:
            for n in ast.walk(s):
                if isinstance(n, (ast.Return, ast.Break, ast.Continue)):
                    return True
        return False

    def names_read(self, nodes):
        out = set()
        for s in nodes:
            for n in ast.walk(s):
                if isinstance(n, ast.Name): out.add(n.id)
                elif self.self_attr(n) and n.attr in self.spec.self_attrs: out.add("self_" + n.attr)
        return out

    def wrap(self, binds, pad, inner):
        """Except.bind chain around `inner` (a function pad -> text)"""
        text = ""
        for (n, rexpr, ty) in binds:
            self.types[n] = ty
            text += "%sExcept.bind (%s) fun %s =>\n" % (pad, rexpr, n)
        return text + inner

    def tuple_of(self, vs):
        return vs[0] if len(vs) == 1 else "(" + ", ".join(vs) + ")"

    def block(self, stmts, k, ind):
        """k: None (function level: must end in return/raise) | ('join', vars) | ('loop', cont_text)"""
        pad = "  " * ind
        if not stmts:
            if k is None: raise Untranslatable("function can fall off its end (returns None)")
            if k[0] == "join": return "%s.ok %s" % (pad, self.tuple_of(k[1]))
            return "%s%s" % (pad, k[1])
        s, rest = stmts[0], stmts[1:]
        if isinstance(s, ast.Expr) and isinstance(s.value, ast.Constant):
            return self.block(rest, k, ind)
        if isinstance(s, ast.Return):
            if self.loop is not None and k is not None and k[0] == "loop":
                raise Untranslatable("return inside a loop")
            if isinstance(s.value, ast.Call):        # tail call of a raising function: no re-wrapping
                b, t, ty = self.expr(s.value)
                if b and b[-1][0] == t:
                    self.check_ret(ty)
                    return self.wrap(b[:-1], pad, "%s%s" % (pad, b[-1][1]))
            if isinstance(s.value, ast.Tuple):
                binds, parts, tys = [], [], []
                for el in s.value.elts:
                    b, t, ty = self.expr(el)
                    binds += b; parts.append(t); tys.append(ty)
                self.check_ret(tuple(tys))
                return self.wrap(binds, pad, "%s.ok (%s)" % (pad, ", ".join(parts)))
            b, t, ty = self.expr(s.value)
            self.check_ret(ty)
            return self.wrap(b, pad, "%s.ok %s" % (pad, t))
        if isinstance(s, ast.Raise):
            return "%s.error .%s" % (pad, self.exc_name(s.exc))
        if isinstance(s, ast.Continue):
            if self.loop is None: raise Untranslatable("continue outside a loop")
            return "%s%s" % (pad, self.loop[0])
        if isinstance(s, ast.Break):
            if self.loop is None: raise Untranslatable("break outside a loop")
            return "%s%s" % (pad, self.loop[1])
        if isinstance(s, ast.Assign):
            return self.assign(s, rest, k, ind)
        if isinstance(s, ast.AugAssign):
            if not isinstance(s.target, ast.Name): raise Untranslatable("augmented assignment target")
            n = s.target.id
            tn = self.types.get(n)
            b, t, ty = self.expr(s.value)
            if tn == "Comps" and ty == "Comps" and isinstance(s.op, ast.Add):
                val = "(%s ++ %s)" % (n, t)
            elif tn == "Int" and ty in ("Int", "Bool"):
                fake = ast.BinOp(left=ast.Name(id=n), op=s.op, right=s.value)
                b, val, _ = self.expr(fake)
            else:
                raise Untranslatable("augmented assignment %s %s= %s" % (tn, type(s.op).__name__, ty))
            return self.wrap(b, pad, "%slet %s := %s\n%s" % (pad, n, val, self.block(rest, k, ind)))
        if isinstance(s, ast.If):
            return self.if_stmt(s, rest, k, ind)
        if isinstance(s, ast.While):
            return self.while_stmt(s, rest, k, ind)
        if isinstance(s, ast.Try):
            return self.try_stmt(s, rest, k, ind)
        raise Untranslatable("statement %s" % type(s).__name__)

    def check_ret(self, ty):
        if self.spec.ret == "Any":
            return
        if ty != self.spec.ret:
            raise Untranslatable("return type %s, declared %s" % (ty, self.spec.ret))

    def exc_name(self, exc):
        name = exc.func.id if isinstance(exc, ast.Call) and isinstance(exc.func, ast.Name) else \
            (exc.id if isinstance(exc, ast.Name) else None)
        if name not in ERRS: raise Untranslatable("raise %r" % name)
        return name

    def assign(self, s, rest, k, ind):
        pad = "  " * ind
        if len(s.targets) != 1: raise Untranslatable("chained assignment")
        t = s.targets[0]
        if isinstance(t, ast.Tuple):
            b, v, ty = self.expr(s.value)
            if not (isinstance(ty, tuple) and len(ty) == len(t.elts) and all(isinstance(x, ast.Name) for x in t.elts)):
                raise Untranslatable("tuple assignment")
            names = [x.id for x in t.elts]
            for n, ty1 in zip(names, ty): self.types[n] = ty1
            # the tuple comes from the last bind: destructure it there
            if b and b[-1][0] == v:
                inner = "%sExcept.bind (%s) fun (%s) =>\n%s" % (pad, b[-1][1], ", ".join(names), self.block(rest, k, ind))
                return self.wrap(b[:-1], pad, inner)
            return self.wrap(b, pad, "%slet (%s) := %s\n%s" % (pad, ", ".join(names), v, self.block(rest, k, ind)))
        if isinstance(t, ast.Subscript):
            if not isinstance(t.value, ast.Name) or self.types.get(t.value.id) != "Comps" or isinstance(t.slice, ast.Slice):
                raise Untranslatable("subscript assignment")
            l = t.value.id
            bi, i, ti = self.expr(t.slice)
            bv, v, tv = self.expr(s.value)
            return self.wrap(bi + bv, pad, "%slet %s := BytesPy.lset %s %s (%s)\n%s" % (
                pad, l, l, self.as_int(i, ti), self.as_comp(v, tv), self.block(rest, k, ind)))
        if not isinstance(t, ast.Name): raise Untranslatable("assignment target")
        b, v, ty = self.expr(s.value)
        old = self.types.get(t.id)
        if old is not None and old != ty and not (old == "Int" and ty == "Bool"):
            raise Untranslatable("%s changes type from %s to %s" % (t.id, old, ty))
        if old == "Int" and ty == "Bool":
            v, ty = self.as_int(v, ty), "Int"
        self.types[t.id] = ty
        if b and b[-1][0] == v:       # x = raising call: bind directly to x
            inner = "%sExcept.bind (%s) fun %s =>\n%s" % (pad, b[-1][1], t.id, self.block(rest, k, ind))
            return self.wrap(b[:-1], pad, inner)
        return self.wrap(b, pad, "%slet %s := %s\n%s" % (pad, t.id, v, self.block(rest, k, ind)))

    def if_stmt(self, s, rest, k, ind):
        pad = "  " * ind
        bc, c = self.cond(s.test)
        if not rest or self.has_escape(s.body) or self.has_escape(s.orelse) or not self.assigned([s]):
            saved = dict(self.types)
            thn = self.block(s.body + rest, k, ind + 1)
            t1 = self.types
            self.types = dict(saved)
            els = self.block(s.orelse + rest, k, ind + 1)
            for n, ty in t1.items(): self.types.setdefault(n, ty)
            return self.wrap(bc, pad, "%sif %s then\n%s\n%selse\n%s" % (pad, c, thn, pad, els))
        live = self.names_read(rest) | set(k[1] if (k is not None and k[0] == "join") else []) | \
            set(self.loop_carried if (k is not None and k[0] == "loop") else [])
        vs = [v for v in self.assigned([s]) if v in live]
        if not vs: raise Untranslatable("if whose assignments are never read")
        pre = ""
        for v in vs:
            if v not in self.types:
                ty = self.type_of_first_assignment(s, v)
                pre += "%slet %s : %s := %s  -- unbound here in Python\n" % (pad, v, lean_ty(ty), DEFAULT[ty])
                self.types[v] = ty
        saved = dict(self.types)
        thn = self.block(s.body, ("join", vs), ind + 2)
        self.types = dict(saved)
        els = self.block(s.orelse, ("join", vs), ind + 2)
        self.types = dict(saved)
        inner = "%s%sExcept.bind (if %s then\n%s\n%s  else\n%s) fun %s =>\n%s" % (
            pre, pad, c, thn, pad, els, ("(%s)" % ", ".join(vs)) if len(vs) > 1 else vs[0], self.block(rest, k, ind))
        return self.wrap(bc, pad, inner)

    def type_of_first_assignment(self, s, v):
        for n in ast.walk(s):
            if isinstance(n, ast.Assign) and len(n.targets) == 1 and isinstance(n.targets[0], ast.Name) and n.targets[0].id == v:
                saved, tmp = dict(self.types), self.tmp
                f = n.value.func if isinstance(n.value, ast.Call) else None
                cal = f.attr if (f is not None and self.self_attr(f)) else (f.id if isinstance(f, ast.Name) else None)
                if cal in self.specs:
                    return self.specs[cal].ret
                try:
                    return self.expr(n.value)[2]
                finally:
                    self.types, self.tmp = saved, tmp
        raise Untranslatable("cannot type %s" % v)

    def try_stmt(self, s, rest, k, ind):
        pad = "  " * ind
        if len(s.body) != 1 or len(s.handlers) != 1 or s.orelse or s.finalbody:
            raise Untranslatable("try statement shape")
        h = s.handlers[0]
        if not isinstance(h.type, ast.Name) or h.type.id not in HANDLER_KINDS:
            raise Untranslatable("except clause")
        kind = HANDLER_KINDS[h.type.id]
        hbody = list(h.body)
        # message construction (string constants) before the raise is irrelevant to the exception kind
        while hbody and isinstance(hbody[0], ast.Assign) and isinstance(hbody[0].value, ast.Constant) \
                and isinstance(hbody[0].value.value, str):
            hbody = hbody[1:]
        # six.raise_from(E(...), e)  ==  raise E(...) from e
        if len(hbody) == 1 and isinstance(hbody[0], ast.Expr) and isinstance(hbody[0].value, ast.Call) \
                and isinstance(hbody[0].value.func, ast.Attribute) and hbody[0].value.func.attr == "raise_from" \
                and isinstance(hbody[0].value.func.value, ast.Name) and hbody[0].value.func.value.id == "six" \
                and len(hbody[0].value.args) == 2:
            hbody = [ast.Raise(exc=hbody[0].value.args[0], cause=None)]
        h = ast.ExceptHandler(type=h.type, name=h.name, body=hbody)
        body = s.body[0]
        if isinstance(body, ast.Return):
            saved = dict(self.types)
            a = self.block([body], None, ind + 1)
            self.types = dict(saved)
            hb = self.block(h.body, None, ind + 1)
            return "%sBytesPy.tryExcept (\n%s) .%s (\n%s)" % (pad, a, kind, hb)
        if isinstance(body, ast.Assign) and len(body.targets) == 1 and isinstance(body.targets[0], ast.Name):
            n = body.targets[0].id
            b, v, ty = self.expr(body.value)
            self.types[n] = ty
            if not (len(h.body) == 1 and isinstance(h.body[0], ast.Raise)):
                raise Untranslatable("except handler that does not raise")
            if b and b[-1][0] == v:
                a = self.wrap(b[:-1], "  " * (ind + 1), "%s%s" % ("  " * (ind + 1), b[-1][1]))
            else:
                a = self.wrap(b, "  " * (ind + 1), "%s.ok %s" % ("  " * (ind + 1), v))
            return "%sExcept.bind (BytesPy.tryExcept (\n%s) .%s (.error .%s)) fun %s =>\n%s" % (
                pad, a, kind, self.exc_name(h.body[0].exc), n, self.block(rest, k, ind))
        raise Untranslatable("try body")

    def while_stmt(self, s, rest, k, ind):
        pad = "  " * ind
        if self.loop is not None: raise Untranslatable("nested loop")
        if s.orelse: raise Untranslatable("while/else")
        if self.spec.fuel is None: raise Untranslatable("loop without a declared bound")
        carried = [v for v in self.assigned(s.body) if v in self.types]
        reads = self.names_read([s.test] + s.body)
        free = [v for v in self.types if v in reads and v not in carried and not v.startswith("t")] \
            + [v for v in self.types if v in reads and v not in carried and v.startswith("t") and not v[1:].isdigit()]
        free = list(dict.fromkeys(free))
        name = "%s_loop" % self.spec.leanname
        call = "%s fuel %s" % (name, " ".join(free + carried))
        saved_types = dict(self.types)
        self.loop = (call, ".ok %s" % self.tuple_of(carried))
        self.loop_carried = carried
        bc, c = self.cond(s.test)
        if bc: raise Untranslatable("raising loop condition")
        body = self.block(s.body, ("loop", call), 3)
        self.loop = None
        params = " ".join("(%s : %s)" % (v, lean_ty(saved_types[v])) for v in free + carried)
        rty = lean_rty(tuple(saved_types[v] for v in carried)) if len(carried) > 1 else lean_rty(saved_types[carried[0]])
        self.aux.append(
            "/-- the `while` loop of `%s`; `fuel` bounds the number of iterations -/\n"
            "def %s (fuel : Nat) %s : Py.R %s :=\n  match fuel with\n  | 0 => .error .NotImplemented\n  | fuel + 1 =>\n"
            "    if %s then\n%s\n    else .ok %s\n" % (self.spec.qualname, name, params, rty, c, body, self.tuple_of(carried)))
        self.types = saved_types
        pat = ("(%s)" % ", ".join(carried)) if len(carried) > 1 else carried[0]
        return "%sExcept.bind (%s %d %s) fun %s =>\n%s" % (
            pad, name, self.spec.fuel, " ".join(free + carried), pat, self.block(rest, k, ind))

    def function(self):
        sp = self.spec
        fn = find_function(self.tree, sp.qualname)
        formals = [a.arg for a in fn.args.args if a.arg != "self"]
        if formals != [n for n, _ in sp.params]:
            raise Untranslatable("signature of %s is %s" % (sp.qualname, formals))
        params = ["(self_%s : %s)" % (a, lean_ty(t)) for a, t in sp.self_attrs.items()]
        params += ["(%s : %s)" % (n, lean_ty(t)) for n, t in sp.params]
        body = self.block(fn.body, None, 1)
        text = "".join(a + "\n" for a in self.aux)
        if sp.closure:
            params = ["{α : Type}", "(%s : BytesPy.Bytes → Py.R α)" % sp.closure] + params
        text += "/-- translated from `%s` -/\ndef %s %s : Py.R %s :=\n%s\n" % (
            sp.qualname, sp.leanname, " ".join(params), "α" if sp.ret == "Any" else lean_rty(sp.ret), body)
        return text, hashlib.sha256(ast.dump(fn).encode()).hexdigest()[:16]


def translate_module(src_root, relfile, specs):
    """-> (lean text of all functions in order, {qualname: fingerprint})"""
    tree = ast.parse(open(os.path.join(src_root, relfile)).read())
    parts, fps = [], {}
    for sp in specs:
        text, fp = BTr(tree, specs, sp).function()
        parts.append(text)
        fps[sp.qualname] = fp
    return "\n".join(parts), fps


ISO_SPECS = [
    BFn("_parse_digits", "parseDigits", [("field", "Bytes"), ("width", "Int")], "Int"),
    BFn("isoparser._parse_tzstr", "parseTzstr", [("tzstr", "Bytes"), ("zero_as_utc", "Bool")], "Off"),
    BFn("isoparser._parse_isodate_common", "parseIsodateCommon", [("dt_str", "Bytes")], ("Comps", "Int")),
    BFn("isoparser._calculate_weekdate", "calculateWeekdate", [("year", "Int"), ("week", "Int"), ("day", "Int")], "Date"),
    BFn("isoparser._parse_isodate_uncommon", "parseIsodateUncommon", [("dt_str", "Bytes")], ("Comps", "Int")),
    BFn("isoparser._parse_isodate", "parseIsodate", [("dt_str", "Bytes")], ("Comps", "Int")),
    BFn("isoparser._parse_isotime", "parseIsotime", [("timestr", "Bytes")], "Comps", fuel=8),
    BFn("isoparser.isoparse", "isoparse", [("dt_str", "Bytes")], "Value", self_attrs={"_sep": "OptBytes"}),
    # the three thin public wrappers (bodies only; the `@_takes_ascii` decorator is hand-modelled)
    BFn("isoparser.parse_isodate", "parseIsodateEntry", [("datestr", "Bytes")], "Date"),
    BFn("isoparser.parse_isotime", "parseIsotimeEntry", [("timestr", "Bytes")], "Time"),
    BFn("isoparser.parse_tzstr", "parseTzstrEntry", [("tzstr", "Bytes"), ("zero_as_utc", "Bool")], "Off"),
    # the decorator: its inner function, with the wrapped method `f` as a parameter
    BFn("_takes_ascii.func", "takesAscii", [("str_in", "PyVal")], "Any", closure="f"),
]

if __name__ == "__main__":
    import sys
    root = sys.argv[1] if len(sys.argv) > 1 else "/repo/src/dateutil"
    text, fps = translate_module(root, "parser/isoparser.py", ISO_SPECS)
    print(text)
