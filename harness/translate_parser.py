#!/usr/bin/env python3
"""
translate_parser.py — Python AST -> Lean 4 for "PPy": the fragment of Python in which the helper classes and
methods of `dateutil/parser/_parser.py` (`_ymd`, `parserinfo`, the small methods of `parser`) are written.
Output: Generated/ParserOps.lean (`Gen.P.*`), regenerated from /repo's working tree on every run; runtime support
(the named primitives): Model/ParserPy.lean (`PPy.*`) and the data types of Model/Parser.lean (`PM.Ymd`, `PM.Info`,
`PM.Res`, `PM.Dec`, `PM.Label`, tokens as `List Char`).

Dialect types
  Nat (parsed numbers, lengths, indices), Int, Bool, OptNat / OptInt (None or a number), Dec (a finite Decimal),
  Tok (a str), OptTok, Char (a one-character str bound by iterating a str / a static key), Label (the `label=`
  argument of `_ymd.append`: None | 'Y' | 'M' | 'D'), Ymd (`self` of `_ymd`), Info (a parserinfo), Res (`_result`),
  Toks (list of str), Strids (the dict `{'y'|'m'|'d': index}`), NatList, CharList, TokSet (keys of a lower-cased word
  dict), TokNatDict, TokIntDict, TokList, YMD (the triple `resolve_ymd` returns), None.

One Python method can give several Lean functions: the declared type of a parameter decides `hasattr(val, '__len__')`
STATICALLY (partial evaluation: `_ymd.append` for a str, a Decimal, an int).

Statements: assignment (names, tuples of names, `self.attr = e`, `res.attr = e`, `d[k] = v`), `if/elif/else`,
`assert`, `raise E(...)`, `return e`, `pass`, `try: return D[k] … except KeyError: S` (a dict lookup),
`super(self.__class__, self).append(e)`.  Everything lives in `Except PyErr`; sub-expressions that can raise are hoisted
into `Except.bind`s in EVALUATION ORDER, and the operands of `and` / `or` / a chained comparison after the first are
evaluated lazily (a monadic Bool) when they can raise.  An `if` with a `return` inside duplicates the rest of the
function into both branches; any other `if` is a join over the variables assigned inside that are read later:
`Except.bind (if c then …; .ok vs else …; .ok vs) (fun j => …)`.  An integer that Python may make negative but the
model keeps as a natural number (`self.mstridx = len(self) - 1`) goes through `PPy.natOfInt` (negative = the
distinguished error NotImplemented, which the obligations show is never produced).
Anything else raises Untranslatable(<named construct>): a broken tie.
"""
import ast, os, hashlib
from translate import Untranslatable, find_function

ERRS = {"ValueError", "IndexError", "OverflowError", "TypeError", "AssertionError", "KeyError", "InvalidOperation", "ParserError"}

LEAN_TY = {"Nat": "Nat", "Int": "Int", "Bool": "Bool", "OptNat": "Option Nat", "OptInt": "Option Int", "Dec": "PM.Dec",
           "Tok": "PM.Token", "OptTok": "Option PM.Token", "Char": "Char", "Label": "PM.Label", "Ymd": "PM.Ymd",
           "Info": "PM.Info", "Res": "PM.Res", "Toks": "List PM.Token", "Strids": "List (Char × Nat)",
           "NatList": "List Nat", "CharList": "List Char", "YMD": "PM.YMD", "NatPair": "Nat × Nat",
           "NatOptPair": "Nat × Option Nat", "OptPair": "Option (Nat × Nat)", "Unit": "Unit",
           "TokPair": "PM.Token × PM.Token", "NumRet": "Nat × PM.Ymd × PM.Res",
           "StepRet": "List PM.Token × Nat × PM.Res × PM.Ymd × List Nat", "OptFloat": "Option Unit", "IntStr": "Int", "DT": "DT", "Repl": "PPy.Repl", "OptBool": "Option Bool", "Str": "List Char",
           "ParseRet": "Option (PM.Res × Option (List PM.Token))", "OptRes": "Option PM.Res", "OptToks": "Option (List PM.Token)",
           "ADt": "PPy.ADt", "TzData": "PM.TzData", "TzObj": "PPy.TzObj", "ResultA": "PM.ResultA", "TzInfos": "PM.TzInfos", "DecimalV": "PPy.DecimalV", "FoldDt": "PPy.FoldDt"}
PAIR_TYPES = {"NatPair": ("Nat", "Nat"), "NatOptPair": ("Nat", "OptNat"), "TokPair": ("Tok", "Tok")}
# (methods of `parser` that are themselves translated: PARSER_METHODS below)

YMD_FIELDS = {"century_specified": ("century", "Bool"), "dstridx": ("dIdx", "OptNat"), "mstridx": ("mIdx", "OptNat"),
              "ystridx": ("yIdx", "OptNat")}
INFO_FIELDS = {"_jump": ("jump", "TokSet"), "_weekdays": ("weekdays", "TokNatDict"), "_months": ("months", "TokNatDict"),
               "_hms": ("hms", "TokNatDict"), "_ampm": ("ampm", "TokNatDict"), "_utczone": ("utczoneKeys", "TokSet"),
               "_pertain": ("pertain", "TokSet"), "UTCZONE": ("UTCZONE", "TokList"), "TZOFFSET": ("tzoffsets", "TokIntDict"),
               "_year": ("year", "Int"), "_century": ("century", "Int"), "dayfirst": ("dayfirst", "Bool"),
               "yearfirst": ("yearfirst", "Bool")}
RES_FIELDS = {"year": ("year", "OptNat"), "month": ("month", "OptNat"), "day": ("day", "OptNat"),
              "weekday": ("weekday", "OptNat"), "hour": ("hour", "OptNat"), "minute": ("minute", "OptNat"),
              "second": ("second", "OptNat"), "microsecond": ("microsecond", "OptNat"), "tzname": ("tzname", "OptTok"),
              "tzoffset": ("tzoffset", "OptInt"), "ampm": ("ampm", "OptNat"),
              "century_specified": ("centurySpecified", "Bool")}
REPL_KEYS = ["year", "month", "day", "hour", "minute", "second", "microsecond"]
DT_FIELDS = {"year": "y", "month": "m", "day": "d", "hour": "hh", "minute": "mm", "second": "ss", "microsecond": "us"}
RESERVED = {"default", "end", "from", "at", "fun", "do", "then", "else", "if", "open", "in", "let", "have", "show", "by", "match", "out"}


def lty(t):
    return LEAN_TY[t]


class PFn:
    """one Lean function to produce from one Python function"""

    def __init__(self, qualname, leanname, params, ret, self_type=None, ctx=(), returns=None, locals_=None,
                 inlines=(), part=None, body_fn=None, loop=None):
        self.loop = loop                # (Lean loop function, its argument names, its state names) for a `while` inside
        self.part = part                # None = the whole function; "while-body" = the body of its (only) `while` loop;
        self.body_fn = body_fn          # "while" = that loop itself (its body is the separately translated `body_fn`)
        self.qualname = qualname
        self.leanname = leanname
        self.params = params            # [(pyname, type)] excluding self
        self.ret = ret                  # dialect type of the result
        self.self_type = self_type      # "Ymd" | "Info" | "Parser" (self.info : Info) | None
        self.ctx = list(ctx)            # extra leading parameters, e.g. ("cls", "Char → PM.CClass")
        self.returns = returns          # name of the mutated object the function hands back ("self" / "res")
        self.locals = dict(locals_ or {})
        self.inlines = list(inlines)    # qualnames of @property bodies inlined (fingerprinted with the function)


class St:
    """static (translation-time) value"""

    def __init__(self, v):
        self.v = v


def lit(v):
    return str(v) if v >= 0 else "(%d)" % v


class Tr:
    def __init__(self, spec, tree):
        self.spec = spec
        self.tree = tree
        self.types = {}
        self.static = {}
        self.narrow = {}
        self.aux = []
        self.tmp = 0

    def fresh(self, base="t"):
        self.tmp += 1
        return "%s_%d" % (base, self.tmp)

    def lname(self, n):
        return n + "_" if n in RESERVED else n

    def src(self, e):
        return ast.dump(e)

    # ------------------------------------------------------------------ coercions
    def coerce(self, t, ty, want, pre=None):
        if ty == want: return t
        if want == "Int" and ty == "Nat":
            return "(%s : Int)" % t if t.isidentifier() or t.isdigit() else "((%s : Nat) : Int)" % t
        if want in ("OptNat", "OptInt", "OptTok", "OptPair") and ty == "None": return "none"
        if want == "OptNat" and ty == "Nat": return "(some %s)" % t
        if want == "OptInt" and ty == "Int": return "(some %s)" % t
        if want == "OptInt" and ty == "Nat": return "(some (%s : Int))" % t
        if want == "OptTok" and ty == "Tok": return "(some %s)" % t
        if want == "Nat" and ty == "Int" and pre is not None:
            x = self.fresh("n")
            pre.append((x, "PPy.natOfInt %s" % t, "Nat"))
            return x
        if want == "OptNat" and ty == "Int" and pre is not None:
            return "(some %s)" % self.coerce(t, ty, "Nat", pre)
        if want == "Nat" and ty == "OptNat" and pre is not None:          # arithmetic / indexing with None: TypeError
            x = self.fresh("v")
            pre.append((x, "PPy.optNat %s" % t, "Nat"))
            return x
        if want == "TzObj" and ty == "TzData":
            return "(PPy.TzObj.data %s)" % t                      # a tzinfo instance or None, handed on as it is
        if want == "Res" and ty == "OptRes" and pre is not None:
            x = self.fresh("v")
            pre.append((x, "PPy.optRes %s" % t, "Res"))
            return x
        if want == "Bool" and ty == "OptBool" and pre is not None:
            x = self.fresh("v")
            pre.append((x, "PPy.optBool %s" % t, "Bool"))
            return x
        if want == "Dec" and ty == "DecimalV" and pre is not None:       # only after `is_finite()` held
            x = self.fresh("v")
            pre.append((x, "PPy.decFinite %s" % t, "Dec"))
            return x
        if want == "Int" and ty == "OptNat" and pre is not None:
            return "(%s : Int)" % self.coerce(t, ty, "Nat", pre)
        raise Untranslatable("cannot pass %s where %s is expected" % (ty, want))

    # ------------------------------------------------------------------ expressions
    def E(self, e, pre):
        k = self.src(e)
        if k in self.narrow:
            return self.narrow[k]
        if isinstance(e, ast.Constant):
            v = e.value
            if v is None: return "none", "None"
            if isinstance(v, bool): return ("true" if v else "false"), "Bool"
            if isinstance(v, int): return (lit(v), "Nat") if v >= 0 else (lit(v), "Int")
            if isinstance(v, str): return St(v), "Static"
            raise Untranslatable("constant %r" % (v,))
        if isinstance(e, ast.Name):
            if e.id in self.static:
                return St(self.static[e.id]), "Static"
            if e.id not in self.types:
                raise Untranslatable("unbound name %s" % e.id)
            return self.lname(e.id), self.types[e.id]
        if isinstance(e, ast.Attribute):
            return self.attr(e, pre)
        if isinstance(e, ast.UnaryOp) and isinstance(e.op, ast.Not):
            return self.bool_of(self.C(e, pre)), "Bool"
        if isinstance(e, ast.UnaryOp) and isinstance(e.op, ast.USub) and isinstance(e.operand, ast.Constant) \
                and isinstance(e.operand.value, int):
            return "(-%d)" % e.operand.value, "Int"
        if isinstance(e, ast.UnaryOp) and isinstance(e.op, ast.USub):
            t, ty = self.E(e.operand, pre)
            return "(-%s)" % self.coerce(t, ty, "Int", pre), "Int"
        if isinstance(e, ast.BinOp):
            return self.binop(e, pre)
        if isinstance(e, (ast.BoolOp, ast.Compare)):
            return self.bool_of(self.C(e, pre)), "Bool"
        if isinstance(e, ast.Tuple):
            parts = [self.E(x, pre) for x in e.elts]
            if self.spec.ret == "YMD" and len(parts) == 3:
                return "(%s)" % ", ".join(self.coerce(t, ty, "OptNat", pre) for t, ty in parts), "YMD"
            if len(parts) == 2 and self.spec.ret == "ResultA":
                (a, ta), (b, tb) = parts
                if ta != "ADt" or tb != "OptToks": raise Untranslatable("return of (%s, %s)" % (ta, tb))
                return "({ dt := %s.dt, tz := %s.tz, tokens := %s } : PM.ResultA)" % (a, a, b), "ResultA"
            if len(parts) == 2 and self.spec.ret == "ParseRet":
                (a, ta), (b, tb) = parts
                if ta == "None" and tb == "None": return "none", "ParseRet"
                if ta == "Res" and tb == "None": return "(some (%s, none))" % a, "ParseRet"
                if ta == "Res" and tb == "Toks": return "(some (%s, some %s))" % (a, b), "ParseRet"
                raise Untranslatable("return of (%s, %s)" % (ta, tb))
            if len(parts) == 2 and self.spec.ret in PAIR_TYPES:
                want = PAIR_TYPES[self.spec.ret]
                return "(%s)" % ", ".join(self.coerce(t, ty, w, pre) for (t, ty), w in zip(parts, want)), self.spec.ret
            raise Untranslatable("tuple value")
        if isinstance(e, ast.List) and not e.elts:
            return "([] : List Nat)", "NatList"
        if isinstance(e, ast.List):
            vals = []
            for x in e.elts:
                if not isinstance(x, ast.Constant): raise Untranslatable("non-constant list literal")
                vals.append(x.value)
            return St(vals), "Static"
        if isinstance(e, ast.Subscript):
            return self.subscript(e, pre)
        if isinstance(e, ast.Call):
            return self.call(e, pre)
        if isinstance(e, ast.Dict) and not e.keys:
            return "({} : PPy.Repl)", "Repl"
        if isinstance(e, ast.IfExp):
            c = self.C(e.test, pre)
            pa, pb = [], []
            a, ta = self.E(e.body, pa); b, tb = self.E(e.orelse, pb)
            if isinstance(c, bool):
                pre.extend(pa if c else pb)
                return (a, ta) if c else (b, tb)
            ty = ta if ta == tb else ("Int" if {ta, tb} <= {"Int", "Nat", "OptNat"} else None)
            if ty is None: raise Untranslatable("conditional expression of %s and %s" % (ta, tb))
            a = self.coerce(a, ta, ty, pa); b = self.coerce(b, tb, ty, pb)
            if not pa and not pb:
                return "(if %s then %s else %s)" % (c, a, b), ty
            x = self.fresh("c")                                      # a branch can raise: evaluated only when taken
            pre.append((x, "(if %s then\n%s\nelse\n%s)" % (c, self.wrap(pa, ".ok %s" % a), self.wrap(pb, ".ok %s" % b)), ty))
            return x, ty
        if isinstance(e, ast.ListComp):
            return self.listcomp(e, pre)
        if isinstance(e, ast.DictComp):
            return self.dictcomp(e, pre)
        raise Untranslatable("expression %s" % type(e).__name__)

    def bool_of(self, c):
        if isinstance(c, bool):
            return "true" if c else "false"
        if c.startswith("(") and c.endswith(" = true)") and c.count(" = true") == 1 and c.count("(") == c.count(")") \
                and "∧" not in c and "∨" not in c:
            inner = c[1:-len(" = true)")]
            return inner if inner.startswith("(") else "(%s)" % inner
        return "(decide %s)" % c

    def prop_of(self, c):
        return ("True" if c else "False") if isinstance(c, bool) else c

    def find_property(self, cls, name):
        for node in ast.walk(self.tree):
            if isinstance(node, ast.ClassDef) and node.name == cls:
                for f in node.body:
                    if isinstance(f, ast.FunctionDef) and f.name == name and \
                            any(isinstance(d, ast.Name) and d.id == "property" for d in f.decorator_list):
                        return f
        return None

    def attr(self, e, pre):
        if e.attr == "tm_year" and ast.unparse(e.value) == "time.localtime()" and self.spec.self_type == "InfoInit":
            return "now_year", "Int"                                  # the current year: a parameter
        if self.spec.self_type == "InfoInit" and isinstance(e.value, ast.Name) and e.value.id == "self" \
                and e.attr in ["JUMP", "WEEKDAYS", "MONTHS", "HMS", "AMPM", "UTCZONE", "PERTAIN"]:
            return "tables.%s" % e.attr, "ClassTable"               # a class attribute (word list)
        if isinstance(e.value, ast.Name) and e.value.id == "string" and e.attr == "ascii_uppercase":
            return "string.ascii_uppercase", "AsciiUpper"            # only as the right operand of `in`
        base, bty = self.E(e.value, pre)
        if bty == "Ymd":
            if e.attr in YMD_FIELDS:
                f, t = YMD_FIELDS[e.attr]
                return "%s.%s" % (base, f), t
            prop = self.find_property("_ymd", e.attr)
            if prop is not None:
                q = "_ymd.%s" % e.attr
                if q not in self.spec.inlines:
                    raise Untranslatable("property %s is not declared as inlined" % q)
                body = [s for s in prop.body if not (isinstance(s, ast.Expr) and isinstance(s.value, ast.Constant))]
                if len(body) != 1 or not isinstance(body[0], ast.Return):
                    raise Untranslatable("property %s is not a single return" % q)
                return self.E(body[0].value, pre)
            raise Untranslatable("_ymd.%s" % e.attr)
        if bty == "Parser" and e.attr == "info":
            return "info", "Info"
        if bty == "Info":
            if e.attr not in INFO_FIELDS: raise Untranslatable("parserinfo.%s" % e.attr)
            f, t = INFO_FIELDS[e.attr]
            return "%s.%s" % (base, f), t
        if bty == "DT":
            if e.attr not in DT_FIELDS: raise Untranslatable("datetime.%s" % e.attr)
            return "%s.%s" % (base, DT_FIELDS[e.attr]), "Int"
        if bty == "Res":
            if e.attr not in RES_FIELDS: raise Untranslatable("_result.%s" % e.attr)
            f, t = RES_FIELDS[e.attr]
            return "%s.%s" % (base, f), t
        if isinstance(e.value, ast.Name) and e.value.id == "string" and e.attr == "ascii_uppercase":
            return "PPy.asciiUppercase", "CharList"
        raise Untranslatable("attribute .%s of %s" % (e.attr, bty))

    def binop(self, e, pre):
        l, tl = self.E(e.left, pre)
        r, tr = self.E(e.right, pre)
        op = type(e.op)
        if tl == "DT" and tr == "RdWd" and op is ast.Add:
            x = self.fresh("dt")
            pre.append((x, "PM.weekdayShift %s %s" % (l, r), "DT"))   # relativedelta(weekday=k) added to a datetime (C03's subject)
            return x, "DT"
        if tl == "Dec" and op is ast.Mod and l and isinstance(e.right, ast.Constant) and e.right.value == 1:
            x = self.fresh("r")
            pre.append((x, "PM.Dec.rem1 %s" % l, "Dec"))          # `value % 1` in the Decimal context (InvalidOperation)
            return x, "Dec"
        if tr == "Dec" and op is ast.Mult and isinstance(e.left, ast.Constant) and e.left.value == 60:
            return "(PM.Dec.mul60 %s)" % r, "Dec"
        if tl == "Static" and op is ast.Mod and isinstance(l.v, str):
            return St(l.v), "Static"                                  # a message text
        if tl == "Tok" and tr == "Tok" and op is ast.Add:
            return "(%s ++ %s)" % (l, r), "Tok"
        if tl == "OptNat": l, tl = self.coerce(l, tl, "Nat", pre), "Nat"
        if tr == "OptNat": r, tr = self.coerce(r, tr, "Nat", pre), "Nat"
        if tl in ("Nat", "Int") and tr in ("Nat", "Int"):
            if op in (ast.Add, ast.Mult):
                sym = "+" if op is ast.Add else "*"
                if tl == tr == "Nat": return "(%s %s %s)" % (l, sym, r), "Nat"
                return "(%s %s %s)" % (self.coerce(l, tl, "Int"), sym, self.coerce(r, tr, "Int")), "Int"
            if op is ast.Sub:
                return "(%s - %s)" % (self.coerce(l, tl, "Int"), self.coerce(r, tr, "Int")), "Int"
            if op is ast.FloorDiv and isinstance(e.right, ast.Constant) and isinstance(e.right.value, int) and e.right.value > 0:
                return "(%s / %s)" % (self.coerce(l, tl, "Int"), self.coerce(r, tr, "Int")), "Int"
        raise Untranslatable("binop %s on %s, %s" % (op.__name__, tl, tr))

    def index_int(self, e, pre):
        t, ty = self.E(e, pre)
        if ty == "OptNat": t, ty = self.coerce(t, ty, "Nat", pre), "Nat"
        if ty not in ("Nat", "Int"): raise Untranslatable("index of type %s" % ty)
        return self.coerce(t, ty, "Int")

    def subscript(self, e, pre):
        v = e.value
        if isinstance(v, ast.Call) and isinstance(v.func, ast.Name) and v.func.id == "monthrange":
            if not (isinstance(e.slice, ast.Constant) and e.slice.value == 1): raise Untranslatable("monthrange()[i]")
            if len(v.args) != 2: raise Untranslatable("monthrange arguments")
            y, ty = self.E(v.args[0], pre); m, tm = self.E(v.args[1], pre)
            t = self.fresh("dim")
            pre.append((t, "PM.monthrange %s %s" % (self.coerce(y, ty, "Int", pre), self.coerce(m, tm, "Int", pre)), "Int"))
            return t, "Int"
        if isinstance(v, ast.Tuple) and len(v.elts) == 2 and all(isinstance(x, (ast.Constant, ast.UnaryOp)) for x in v.elts):
            # (a, b)[cond]: False picks a, True picks b
            c = self.C(e.slice, pre)
            a, ta = self.E(v.elts[0], pre); b, tb = self.E(v.elts[1], pre)
            if ta == "Static" and tb == "Static":
                a, b, ty = "(PM.tk \"%s\")" % a.v, "(PM.tk \"%s\")" % b.v, "Tok"
            elif {ta, tb} <= {"Nat", "Int"}:
                a, b, ty = self.coerce(a, ta, "Int"), self.coerce(b, tb, "Int"), "Int"
            else:
                raise Untranslatable("tuple literal of %s, %s indexed by a condition" % (ta, tb))
            if isinstance(c, bool): return (b if c else a), ty
            return "(if %s then %s else %s)" % (c, b, a), ty
        base, bt = self.E(v, pre)
        if bt == "Tok" and isinstance(e.slice, ast.Slice):
            sl = e.slice
            if sl.step is not None: raise Untranslatable("slice step")
            def bound(b):
                if b is None: return None
                if isinstance(b, ast.Constant) and isinstance(b.value, int) and b.value >= 0: return b.value
                raise Untranslatable("slice bound %s" % ast.unparse(b))
            lo, hi = bound(sl.lower), bound(sl.upper)
            if hi is None: return "(%s.drop %d)" % (base, lo or 0), "Tok"
            return "(PM.sl %s %d %d)" % (base, lo or 0, hi), "Tok"
        if bt == "Ymd":
            i = self.index_int(e.slice, pre)
            t = self.fresh("x")
            pre.append((t, "PM.Ymd.at %s %s" % (base, i), "Nat"))
            return t, "Nat"
        if bt in ("NatList", "CharList"):
            i = self.index_int(e.slice, pre)
            t = self.fresh("x")
            pre.append((t, "Py.getIdx %s %s" % (base, i), "Nat" if bt == "NatList" else "Char"))
            return t, pre[-1][2]
        if bt == "Strids":
            kx, tk = self.E(e.slice, pre)
            t = self.fresh("x")
            pre.append((t, "PPy.dictGet %s %s" % (base, self.char_of(kx, tk)), "Nat"))
            return t, "Nat"
        if bt == "Toks":
            i = self.index_int(e.slice, pre)
            t = self.fresh("tok")
            pre.append((t, "PPy.toksAt %s %s" % (base, i), "Tok"))
            return t, "Tok"
        raise Untranslatable("subscript of %s" % bt)

    def char_of(self, t, ty):
        if ty == "Char": return t
        if ty == "Static" and isinstance(t.v, str) and len(t.v) == 1: return "'%s'" % t.v
        raise Untranslatable("a one-character key is expected, got %s" % ty)

    def label_of(self, t, ty):
        if ty == "Label": return t
        if ty == "None": return "PM.Label.none"
        if ty == "Static" and t.v in ("Y", "M", "D"): return "PM.Label.%s" % t.v
        raise Untranslatable("label value of type %s" % ty)

    def call(self, e, pre):
        f = e.func
        if isinstance(f, ast.Name):
            n = f.id
            if n == "len" and len(e.args) == 1:
                t, ty = self.E(e.args[0], pre)
                if ty == "Ymd": return "%s.vals.length" % t, "Nat"
                if ty in ("Tok", "Strids", "NatList", "CharList", "Toks"): return "%s.length" % t, "Nat"
                if ty == "IntStr": return "(PPy.intStrLen %s)" % t, "Nat"
                if ty in ("Res", "OptRes"): return "(PM.Res.len %s)" % self.coerce(t, ty, "Res", pre), "Nat"
                raise Untranslatable("len of %s" % ty)
            if n == "int" and len(e.args) == 1:
                t, ty = self.E(e.args[0], pre)
                if ty == "Tok":
                    x = self.fresh("i")
                    pre.append((x, "PM.pyInt cls %s" % t, "Nat"))
                    return x, "Nat"
                if ty == "Dec": return "(PM.Dec.toNat %s)" % t, "Nat"
                if ty in ("Nat", "Int"): return t, ty
                if ty == "IntStr": return t, "Int"                    # int(str(n)) = n
                raise Untranslatable("int() of %s" % ty)
            if n == "hasattr" and len(e.args) == 2 and isinstance(e.args[1], ast.Constant) and e.args[1].value == "__len__":
                t, ty = self.E(e.args[0], pre)
                if ty in ("Tok", "IntStr"): return "true", "StaticBool"
                if ty in ("Dec", "Nat", "Int"): return "false", "StaticBool"
                raise Untranslatable("hasattr(%s, '__len__')" % ty)
            if n == "callable" and len(e.args) == 1:
                t, ty = self.E(e.args[0], pre)
                if ty != "TzInfos": raise Untranslatable("callable(%s)" % ty)
                return "(PPy.tziCallable %s)" % t, "Bool"
            if n in self.types and self.types[n] == "TzInfos" and len(e.args) == 2 and not e.keywords:
                a, ta = self.E(e.args[0], pre); b, tb = self.E(e.args[1], pre)
                x = self.fresh("td")
                pre.append((x, "PPy.tziCall %s %s %s" % (n, self.coerce(a, ta, "OptTok", pre), self.coerce(b, tb, "OptInt", pre)), "TzData"))
                return x, "TzData"
            if n == "isinstance" and len(e.args) == 2:
                t, ty = self.E(e.args[0], pre)
                k2 = ast.unparse(e.args[1])
                fnm = {"datetime.tzinfo": "isTzinfoObj", "text_type": "isText", "integer_types": "isInt"}.get(k2)
                if ty != "TzData" or fnm is None: raise Untranslatable("isinstance(%s, %s)" % (ty, k2))
                return "(PPy.%s %s)" % (fnm, t), "Bool"
            if n == "sorted" and len(e.args) == 1 and not e.keywords:
                t, ty = self.E(e.args[0], pre)
                if ty != "NatList": raise Untranslatable("sorted(%s)" % ty)
                return "(PPy.sortedNat %s)" % t, "NatList"
            if n == "_ymd" and not e.args and not e.keywords:
                return "({} : PM.Ymd)", "Ymd"
            if n == "tuple" and len(e.args) == 1:
                t, ty = self.E(e.args[0], pre)
                if ty != "Toks": raise Untranslatable("tuple(%s)" % ty)
                return t, ty
            if n == "getattr" and len(e.args) == 2:
                a, ta = self.E(e.args[1], pre)
                if ta != "Static" or not isinstance(a.v, str): raise Untranslatable("getattr with a dynamic name")
                return self.attr(ast.Attribute(value=e.args[0], attr=a.v, ctx=ast.Load()), pre)
            if n == "str" and len(e.args) == 1:
                t, ty = self.E(e.args[0], pre)
                if ty not in ("Int", "Nat"): raise Untranslatable("str() of %s" % ty)
                return self.coerce(t, ty, "Int"), "IntStr"          # a str known to be `str(<int>)`: kept as the int
            if n == "Decimal" and len(e.args) == 1:
                t, ty = self.E(e.args[0], pre)
                if ty != "Tok": raise Untranslatable("Decimal(%s)" % ty)
                x = self.fresh("dv")
                pre.append((x, "PPy.decimalCtor cls %s" % t, "DecimalV"))
                return x, "DecimalV"
            if n == "range" and len(e.args) == 1 and isinstance(e.args[0], ast.Constant) and isinstance(e.args[0].value, int):
                return "(List.range %d)" % e.args[0].value, "NatList"
            raise Untranslatable("call %s" % n)
        if isinstance(f, ast.Attribute) and ast.unparse(f) == "tz.tzstr" and len(e.args) == 1:
            a, ta = self.E(e.args[0], pre)
            if ta != "TzData": raise Untranslatable("tz.tzstr(%s)" % ta)
            x = self.fresh("z")
            pre.append((x, "PPy.mkTzstr %s" % a, "TzObj"))          # the constructor may raise (C08's model of the TZ-string parser)
            return x, "TzObj"
        if isinstance(f, ast.Attribute) and ast.unparse(f) == "tz.tzoffset" and len(e.args) == 2:
            a, ta = self.E(e.args[0], pre); b, tb = self.E(e.args[1], pre)
            if tb != "TzData": raise Untranslatable("tz.tzoffset(_, %s)" % tb)
            x = self.fresh("z")
            pre.append((x, "PPy.mkTzoffset %s %s" % (self.coerce(a, ta, "OptTok", pre), b), "TzObj"))
            return x, "TzObj"
        if isinstance(f, ast.Attribute) and isinstance(f.value, ast.Name) and self.types.get(f.value.id) == "TzInfos" \
                and f.attr == "get" and len(e.args) == 1:
            a, ta = self.E(e.args[0], pre)
            x = self.fresh("td")
            pre.append((x, "PPy.tziGet %s %s" % (f.value.id, self.coerce(a, ta, "OptTok", pre)), "TzData"))
            return x, "TzData"
        if isinstance(f, ast.Attribute) and ast.unparse(f) == "self._parse" and len(e.args) == 1 and len(e.keywords) == 1 \
                and e.keywords[0].arg is None and isinstance(e.keywords[0].value, ast.Name) and e.keywords[0].value.id == "kwargs":
            t, ty = self.E(e.args[0], pre)
            if ty != "Str": raise Untranslatable("_parse(%s)" % ty)
            for kname in ("dayfirst", "yearfirst", "fuzzy", "fuzzy_with_tokens"):        # **kwargs: the keyword parameters of _parse
                if kname not in self.types: raise Untranslatable("**kwargs: %s is not declared" % kname)
            self.uses_fuel = True
            x = self.fresh("pr")
            pre.append((x, "Gen.P.parse fuel cls info %s dayfirst yearfirst fuzzy fuzzy_with_tokens" % t, "ParseRet"))
            return x, "ParseRet"
        if isinstance(f, ast.Attribute) and ast.unparse(f) == "kwargs.get" and len(e.args) == 2 \
                and isinstance(e.args[0], ast.Constant) and e.args[0].value == "fuzzy_with_tokens" \
                and isinstance(e.args[1], ast.Constant) and e.args[1].value is False:
            return "fuzzy_with_tokens", "Bool"
        if isinstance(f, ast.Attribute) and ast.unparse(f) == "self._build_naive" and len(e.args) == 2:
            a, ta = self.E(e.args[0], pre); b, tb = self.E(e.args[1], pre)
            if tb != "DT": raise Untranslatable("_build_naive(_, %s)" % tb)
            x = self.fresh("nv")
            pre.append((x, "Gen.P.buildNaive info %s %s" % (self.coerce(a, ta, "Res", pre), b), "DT"))
            return "({ dt := %s, tz := PM.FinalTz.ofDefault } : PPy.ADt)" % x, "ADt"     # `default.replace(**repl)` keeps default.tzinfo
        if isinstance(f, ast.Attribute) and ast.unparse(f) == "self._build_tzaware" and len(e.args) == 3:
            a, ta = self.E(e.args[0], pre); b, tb = self.E(e.args[1], pre); c, tc = self.E(e.args[2], pre)
            if ta != "ADt" or tc != "TzInfos": raise Untranslatable("_build_tzaware(%s, _, %s)" % (ta, tc))
            x = self.fresh("aw")
            pre.append((x, "PPy.buildTzawareStandIn tznames %s %s %s" % (c, a, self.coerce(b, tb, "Res", pre)), "ADt"))   # named stand-in (hand model)
            return x, "ADt"
        if isinstance(f, ast.Attribute) and ast.unparse(f) == "self._result" and not e.args and not e.keywords:
            return "({} : PM.Res)", "Res"
        if isinstance(f, ast.Attribute) and ast.unparse(f) == "_timelex.split" and len(e.args) == 1:
            t, ty = self.E(e.args[0], pre)
            if ty != "Str": raise Untranslatable("_timelex.split(%s)" % ty)
            return "(PM.lex cls %s)" % t, "Toks"              # the lexer: a named primitive (Model/Lexer.lean) until it is translated
        if isinstance(f, ast.Attribute) and ast.unparse(f) == "self._recombine_skipped" and len(e.args) == 2:
            a, ta = self.E(e.args[0], pre); b, tb = self.E(e.args[1], pre)
            if (ta, tb) != ("Toks", "NatList"): raise Untranslatable("_recombine_skipped(%s, %s)" % (ta, tb))
            x = self.fresh("sk")
            pre.append((x, "Gen.P.recombineSkipped info %s %s" % (a, b), "Toks"))
            return x, "Toks"
        if isinstance(f, ast.Attribute) and ast.unparse(f) == "relativedelta.relativedelta" and not e.args \
                and len(e.keywords) == 1 and e.keywords[0].arg == "weekday":
            a, ta = self.E(e.keywords[0].value, pre)
            return self.coerce(a, ta, "Nat", pre), "RdWd"
        if isinstance(f, ast.Attribute):
            if isinstance(f.value, ast.Name) and f.value.id == "tz" and f.attr == "enfold" and len(e.args) == 1 \
                    and len(e.keywords) == 1 and e.keywords[0].arg == "fold":
                a, ta = self.E(e.args[0], pre); b, tb = self.E(e.keywords[0].value, pre)
                if ta != "FoldDt" or tb != "Nat": raise Untranslatable("tz.enfold(%s, fold=%s)" % (ta, tb))
                return "(PPy.FoldDt.enfold %s %s)" % (a, b), "FoldDt"
            recv, rt = self.E(f.value, pre)
            if rt == "IntStr" and f.attr == "isdigit" and not e.args:
                return "(PPy.intStrIsDigit %s)" % recv, "Bool"
            if rt == "Tok" and f.attr == "isdigit" and not e.args:
                return "(PM.isDigitTok cls %s)" % recv, "Bool"
            if rt == "Tok" and f.attr == "lower" and not e.args:
                return "(PM.lower %s)" % recv, "Tok"
            if rt == "ADt" and f.attr == "replace" and not e.args and len(e.keywords) == 1 and e.keywords[0].arg == "tzinfo" \
                    and isinstance(e.keywords[0].value, ast.Constant) and e.keywords[0].value.value is None:
                return "({ %s with tz := PM.FinalTz.none } : PPy.ADt)" % recv, "ADt"
            if rt == "DT" and f.attr == "replace" and not e.args and len(e.keywords) == 1 and e.keywords[0].arg is None:
                d, td = self.E(e.keywords[0].value, pre)
                if td != "Repl": raise Untranslatable("replace(**%s)" % td)
                x = self.fresh("dt")
                pre.append((x, "PM.dtReplace %s %s" % (recv, " ".join("%s.%s" % (d, k) for k in REPL_KEYS)), "DT"))
                return x, "DT"
            if rt == "Tok" and f.attr == "find" and len(e.args) == 1:
                a, ta = self.E(e.args[0], pre)
                return "(PPy.strFind %s %s)" % (recv, self.char_of(a, ta)), "Int"
            if rt == "Ymd" and f.attr == "could_be_day" and len(e.args) == 1:
                a, ta = self.E(e.args[0], pre)
                if ta != "Dec": raise Untranslatable("could_be_day(%s)" % ta)
                x = self.fresh("cb")
                pre.append((x, "Gen.P.ymd_couldBeDay %s %s" % (recv, a), "Bool"))
                return x, "Bool"
            if rt == "Parser" and f.attr == "_adjust_ampm" and len(e.args) == 2:
                a, ta = self.E(e.args[0], pre); b, tb = self.E(e.args[1], pre)
                return "(Gen.adjustAmpm %s %s)" % (self.coerce(a, ta, "Int", pre), self.coerce(b, tb, "Int", pre)), "Int"
            if rt == "Tok" and f.attr == "split" and len(e.args) == 1:
                a, ta = self.E(e.args[0], pre)
                x = self.fresh("p")
                pre.append((x, "PPy.split2 %s %s" % (recv, self.char_of(a, ta)), "TokPair"))   # only as `a, b = s.split(c)`
                return x, "TokPair"
            if rt == "Tok" and f.attr == "ljust" and len(e.args) == 2:
                a, ta = self.E(e.args[0], pre); b, tb = self.E(e.args[1], pre)
                if ta != "Nat": raise Untranslatable("ljust width of type %s" % ta)
                return "(PPy.ljust %s %s %s)" % (recv, a, self.char_of(b, tb)), "Tok"
            if rt == "DecimalV" and f.attr == "is_finite" and not e.args:
                return "(PPy.DecimalV.isFinite %s)" % recv, "Bool"
            if rt == "FoldDt" and f.attr == "tzname" and not e.args:
                return "(PPy.FoldDt.tzname %s)" % recv, "OptTok"
            if rt == "Parser" and f.attr in PARSER_METHODS:
                fn, atys, rty = PARSER_METHODS[f.attr][:3]
                actual = list(e.args)
                if e.keywords:
                    names = PARSER_METHODS[f.attr][3]
                    kw = {k.arg: k.value for k in e.keywords}
                    for nm in names[len(actual):]:
                        if nm not in kw: raise Untranslatable("arguments of self.%s" % f.attr)
                        actual.append(kw.pop(nm))
                    if kw: raise Untranslatable("keyword %s of self.%s" % (sorted(kw)[0], f.attr))
                if len(actual) != len(atys): raise Untranslatable("arguments of self.%s" % f.attr)
                args = []
                for a, want in zip(actual, atys):
                    t, ty = self.E(a, pre)
                    if want == "Info":
                        if t != "info": raise Untranslatable("a parserinfo other than self.info is passed on")
                        continue
                    args.append(self.coerce(t, ty, want, pre))
                x = self.fresh("r")
                pre.append((x, "%s %s" % (fn, " ".join(args)), rty))
                return x, rty
            if rt == "Strids" and f.attr == "values" and not e.args:
                return "(%s.map (·.2))" % recv, "NatList"
            if rt == "Strids" and f.attr == "get" and len(e.args) == 1:
                kx, tk = self.E(e.args[0], pre)
                return "(PPy.dictFind %s %s)" % (recv, self.char_of(kx, tk)), "OptNat"
            if rt == "TokIntDict" and f.attr == "get" and len(e.args) == 1:
                kx, tk = self.E(e.args[0], pre)
                if tk != "Tok": raise Untranslatable("dict.get(%s)" % tk)
                return "(PM.lookupLast %s %s)" % (recv, kx), "OptInt"
            if rt == "Info" and f.attr == "_convert" and len(e.args) == 1:
                a, ta = self.E(e.args[0], pre)
                if ta != "ClassTable": raise Untranslatable("_convert(%s)" % ta)
                return "(PM.convertGroups %s)" % a, "TokNatDict"        # `_convert`: a named primitive (Model/Parser.lean)
            if rt == "Info" and f.attr == "tzoffset" and len(e.args) == 1:
                a, ta = self.E(e.args[0], pre)
                a = self.coerce(a, ta, "Tok", pre) if ta != "OptTok" else self.opt_tok(a, pre)
                x = self.fresh("q")
                pre.append((x, "Gen.P.info_tzoffset %s %s" % (recv, a), "OptInt"))
                return x, "OptInt"
            if rt == "Info" and f.attr == "convertyear" and len(e.args) in (1, 2):
                a, ta = self.E(e.args[0], pre)
                b, tb = self.E(e.args[1], pre) if len(e.args) == 2 else ("false", "Bool")     # century_specified=False
                if tb != "Bool": raise Untranslatable("convertyear(_, %s)" % tb)
                x = self.fresh("y")
                pre.append((x, "Gen.convertyear ⟨%s.century, %s.year⟩ %s %s" % (recv, recv, self.coerce(a, ta, "Int", pre), b), "Int"))
                return x, "Int"
            if rt == "Info" and f.attr in ("utczone", "jump", "pertain", "hms", "ampm", "weekday", "month") and len(e.args) == 1:
                a, ta = self.E(e.args[0], pre)
                a = self.coerce(a, ta, "Tok", pre) if ta != "OptTok" else self.opt_tok(a, pre)
                rty = "Bool" if f.attr in ("utczone", "jump", "pertain") else "OptNat"
                x = self.fresh("q")
                pre.append((x, "Gen.P.info_%s %s %s" % (f.attr, recv, a), rty))
                return x, rty
            if rt == "Ymd" and recv != "self" and f.attr == "resolve_ymd" and len(e.args) == 2:
                a, ta = self.E(e.args[0], pre); b, tb = self.E(e.args[1], pre)
                x = self.fresh("r")
                pre.append((x, "Gen.P.ymd_resolveYmd %s %s %s" % (recv, self.coerce(a, ta, "Bool", pre), self.coerce(b, tb, "Bool", pre)), "YMD"))
                return x, "YMD"
            if rt == "Ymd" and f.attr == "_resolve_from_stridxs" and len(e.args) == 1:
                a, ta = self.E(e.args[0], pre)
                if ta != "Strids": raise Untranslatable("_resolve_from_stridxs(%s)" % ta)
                x = self.fresh("r")
                pre.append((x, "Gen.P.ymd_resolveFromStridxs %s %s" % (recv, a), "YMD"))
                return x, "YMD"
        raise Untranslatable("call %s" % ast.unparse(f)[:40])

    def opt_tok(self, t, pre):
        x = self.fresh("s")
        pre.append((x, "PPy.optTok %s" % t, "Tok"))          # a str method on None: AttributeError
        return x

    def listcomp(self, e, pre):
        # [x for x in ITER if x not in COLL]
        if len(e.generators) != 1: raise Untranslatable("nested comprehension")
        g = e.generators[0]
        if not (isinstance(g.target, ast.Name) and isinstance(e.elt, ast.Name) and e.elt.id == g.target.id and len(g.ifs) == 1):
            raise Untranslatable("list comprehension shape")
        it, ti = self.E(g.iter, pre)
        var = g.target.id
        if ti == "Static" and isinstance(it.v, list) and all(isinstance(x, str) and len(x) == 1 for x in it.v):
            it, ti, ety = "[%s]" % ", ".join("'%s'" % x for x in it.v), "CharList", "Char"
        elif ti == "NatList":
            ety = "Nat"
        else:
            raise Untranslatable("comprehension over %s" % ti)
        saved = self.types.get(var)
        self.types[var] = ety
        p = []
        c = self.C(g.ifs[0], p)
        if p: raise Untranslatable("raising condition in a comprehension")
        if saved is None: del self.types[var]
        else: self.types[var] = saved
        return "(%s.filter (fun %s => %s))" % (it, var, self.bool_of(c)), ti

    def dictcomp(self, e, pre):
        if len(e.generators) != 1: raise Untranslatable("nested comprehension")
        g = e.generators[0]
        # {key: val for key, val in <static tuple of (const, expr)> if val is not None}
        if isinstance(g.target, ast.Tuple) and len(g.target.elts) == 2 and isinstance(g.iter, ast.Name) \
                and g.iter.id in self.static and isinstance(self.static[g.iter.id], tuple):
            kn, vn = g.target.elts[0].id, g.target.elts[1].id
            ok = isinstance(e.key, ast.Name) and e.key.id == kn and isinstance(e.value, ast.Name) and e.value.id == vn \
                and len(g.ifs) == 1 and isinstance(g.ifs[0], ast.Compare) and isinstance(g.ifs[0].left, ast.Name) \
                and g.ifs[0].left.id == vn and len(g.ifs[0].ops) == 1 and isinstance(g.ifs[0].ops[0], ast.IsNot) \
                and isinstance(g.ifs[0].comparators[0], ast.Constant) and g.ifs[0].comparators[0].value is None
            if not ok: raise Untranslatable("dict comprehension over pairs: shape")
            parts = []
            for kk, (vt, vty) in self.static[g.iter.id]:
                if vty != "OptNat": raise Untranslatable("dict comprehension value of type %s" % vty)
                parts.append("PPy.optEntry '%s' %s" % (kk, vt))
            return "(%s)" % " ++ ".join(parts), "Strids"
        # {key: <expr of key> for key in strids}
        if isinstance(g.target, ast.Name) and not g.ifs and isinstance(e.key, ast.Name) and e.key.id == g.target.id:
            it, ti = self.E(g.iter, pre)
            if ti != "Strids": raise Untranslatable("dict comprehension over %s" % ti)
            var = g.target.id
            saved = self.types.get(var)
            self.types[var] = "Char"
            p = []
            v, tv = self.E(e.value, p)
            if tv != "Nat": raise Untranslatable("dict comprehension value of type %s" % tv)
            if saved is None: del self.types[var]
            else: self.types[var] = saved
            x = self.fresh("d")
            pre.append((x, "PPy.dictCompM %s (fun %s =>\n%s)" % (it, var, self.wrap(p, ".ok %s" % v)), "Strids"))
            return x, "Strids"
        raise Untranslatable("dict comprehension shape")

    # ------------------------------------------------------------------ conditions: Prop text or python bool
    def lazy_all(self, parts, pre, conj):
        """parts = [(pre_i, cond_i)]: `and` (conj) / `or` of conditions evaluated left to right, each operand after the
        first only when needed"""
        pre.extend(parts[0][0])
        parts = [([], parts[0][1])] + parts[1:]
        if all(not p for p, _ in parts):
            vals = [c for _, c in parts]
            if conj:
                if any(v is False for v in vals): return False
                vals = [v for v in vals if v is not True]
                if not vals: return True
                return vals[0] if len(vals) == 1 else "(" + " ∧ ".join(vals) + ")"
            if any(v is True for v in vals): return True
            vals = [v for v in vals if v is not False]
            if not vals: return False
            return vals[0] if len(vals) == 1 else "(" + " ∨ ".join(vals) + ")"

        def mon(i):
            p, c = parts[i]
            c = self.prop_of(c)
            if i == len(parts) - 1:
                inner = ".ok (decide %s)" % c
            elif conj:
                inner = "(if %s then\n%s\nelse .ok false)" % (c, mon(i + 1))
            else:
                inner = "(if %s then .ok true else\n%s)" % (c, mon(i + 1))
            return self.wrap(p, inner)
        t = self.fresh("b")
        pre.append((t, mon(0), "Bool"))
        return "(%s = true)" % t

    def C(self, e, pre):
        if isinstance(e, ast.BoolOp):
            parts = []
            for v in e.values:
                p = []
                c = self.C(v, p)
                parts.append((p, c))
            return self.lazy_all(parts, pre, isinstance(e.op, ast.And))
        if isinstance(e, ast.UnaryOp) and isinstance(e.op, ast.Not):
            c = self.C(e.operand, pre)
            return (not c) if isinstance(c, bool) else "(¬ %s)" % c
        if isinstance(e, ast.Compare):
            parts = []
            left = e.left
            lv = None
            for i, (op, right) in enumerate(zip(e.ops, e.comparators)):
                p = []
                c, lv = self.cmp1(left, lv, op, right, p)
                parts.append((p, c))
                left = right
            return self.lazy_all(parts, pre, True)
        if isinstance(e, ast.Call) and isinstance(e.func, ast.Name) and e.func.id == "all" and len(e.args) == 1 \
                and isinstance(e.args[0], ast.GeneratorExp):
            g = e.args[0]
            if len(g.generators) != 1 or g.generators[0].ifs or not isinstance(g.generators[0].target, ast.Name):
                raise Untranslatable("all(<generator>)")
            it, ti = self.E(g.generators[0].iter, pre)
            if ti != "Tok": raise Untranslatable("all() over %s" % ti)
            var = g.generators[0].target.id
            self.types[var] = "Char"
            p = []
            c = self.C(g.elt, p)
            del self.types[var]
            if p: raise Untranslatable("raising condition in all()")
            return "(%s.all (fun %s => %s) = true)" % (it, var, self.bool_of(c))
        t, ty = self.E(e, pre)
        if ty == "StaticBool": return t == "true"
        if ty == "Bool": return "(%s = true)" % t
        if ty == "Nat": return "(%s ≠ 0)" % t
        if ty == "Int": return "(%s ≠ 0)" % t
        if ty == "OptTok": return "(PM.nameTruthy %s = true)" % t
        if ty == "OptNat": return "(PPy.truthyOptNat %s = true)" % t
        if ty == "OptInt": return "(PPy.truthyOptInt %s = true)" % t
        if ty == "None": return False
        if ty == "Dec": return "(PM.Dec.isZero %s = false)" % t
        if ty == "Ymd": return "(%s.vals.length ≠ 0)" % t
        raise Untranslatable("truthiness of %s" % ty)

    def cmp1(self, left, lv, op, right, pre):
        """one comparison; `lv` = the already evaluated left operand of a chain.  Returns (condition, evaluated right)"""
        l, tl = lv if lv is not None else self.E(left, pre)
        if isinstance(op, (ast.Is, ast.IsNot)):
            if not (isinstance(right, ast.Constant) and right.value is None): raise Untranslatable("is")
            pos = isinstance(op, ast.Is)
            if tl in ("Nat", "Int", "Tok", "Dec"): return (not pos), ("none", "None")
            if tl == "None": return pos, ("none", "None")
            if tl == "TzData": return "(%s %s PM.TzData.noneVal)" % (l, "=" if pos else "≠"), ("none", "None")
            if tl == "Label": return "(%s %s PM.Label.none)" % (l, "=" if pos else "≠"), ("none", "None")
            if tl in ("OptNat", "OptInt", "OptTok", "OptFloat", "OptBool", "OptRes", "OptToks"): return "(%s %s none)" % (l, "=" if pos else "≠"), ("none", "None")
            raise Untranslatable("is None on %s" % tl)
        if isinstance(op, (ast.In, ast.NotIn)):
            neg = isinstance(op, ast.NotIn)
            if isinstance(right, (ast.List, ast.Tuple)):
                alts = []
                for el in right.elts:
                    r, tr = self.E(el, pre)
                    alts.append(self.eq(l, tl, r, tr, pre))
                c = "(" + " ∨ ".join(alts) + ")"
                return ("(¬ %s)" % c if neg else c), ("[]", "Static")
            r, tr = self.E(right, pre)
            if tr == "Repl" and tl == "Static" and l.v in REPL_KEYS:
                c = "(%s.%s ≠ none)" % (r, l.v)
                return ("(¬ %s)" % c if neg else c), (r, tr)
            if tr == "Tok" and tl == "Static" and isinstance(l.v, str) and len(l.v) == 1:
                c = "(%s.contains '%s' = true)" % (r, l.v)
                return ("(¬ %s)" % c if neg else c), (r, tr)
            if tr in ("TokSet", "TokList") and tl == "Tok": c = "(%s.contains %s = true)" % (r, l)
            elif tr == "NatList" and tl == "Nat": c = "(%s.contains %s = true)" % (r, l)
            elif tr == "CharList" and tl == "Char": c = "(%s.contains %s = true)" % (r, l)
            elif tr == "AsciiUpper" and tl == "Char": c = "(PM.isAsciiUpper %s = true)" % l
            elif tr == "Strids" and tl == "Char": c = "((%s.map (·.1)).contains %s = true)" % (r, l)
            else: raise Untranslatable("%s in %s" % (tl, tr))
            return ("(¬ %s)" % c if neg else c), (r, tr)
        r, tr = self.E(right, pre)
        sym = {ast.Lt: "<", ast.LtE: "≤", ast.Gt: ">", ast.GtE: "≥", ast.Eq: "=", ast.NotEq: "≠"}.get(type(op))
        if sym is None: raise Untranslatable("comparison %s" % type(op).__name__)
        if sym in ("=", "≠"):
            c = self.eq(l, tl, r, tr, pre)
            return (c if sym == "=" else "(¬ %s)" % c), (r, tr)
        if tl == "OptNat": l, tl = self.coerce(l, tl, "Nat", pre), "Nat"
        if tr == "OptNat": r, tr = self.coerce(r, tr, "Nat", pre), "Nat"
        if tl in ("Nat", "Int") and tr in ("Nat", "Int"):
            if tl != tr: l, r = self.coerce(l, tl, "Int"), self.coerce(r, tr, "Int")
            return "(%s %s %s)" % (l, sym, r), (r, tr)
        if tl == "Dec" and tr in ("Nat", "Int"):
            f = {"<": "ltNat", "≤": "leNat", ">": "gtNat", "≥": "geNat"}[sym]
            if tr == "Int": return "(PPy.dec%sInt %s %s = true)" % (f[:2].capitalize(), l, r), (r, tr)
            return "(PM.Dec.%s %s %s = true)" % (f, l, r), (r, tr)
        if tl in ("Nat", "Int") and tr == "Dec":
            f = {"<": "gtNat", "≤": "geNat", ">": "ltNat", "≥": "leNat"}[sym]
            if tl == "Int": return "(PPy.dec%sInt %s %s = true)" % (f[:2].capitalize(), r, l), (r, tr)
            return "(PM.Dec.%s %s %s = true)" % (f, r, l), (r, tr)
        raise Untranslatable("comparison %s of %s and %s" % (sym, tl, tr))

    def eq(self, l, tl, r, tr, pre):
        if tl == "Label" or tr == "Label":
            return "(%s = %s)" % (self.label_of(l, tl), self.label_of(r, tr))
        if tl == "Nat" and tr == "Nat": return "(%s = %s)" % (l, r)
        if {tl, tr} <= {"Nat", "Int"}: return "(%s = %s)" % (self.coerce(l, tl, "Int"), self.coerce(r, tr, "Int"))
        if {tl, tr} <= {"OptNat", "Nat", "None"}:
            return "(%s = %s)" % (self.coerce(l, tl, "OptNat"), self.coerce(r, tr, "OptNat"))
        if {tl, tr} <= {"OptInt", "Int", "Nat", "None"}:
            return "(%s = %s)" % (self.coerce(l, tl, "OptInt"), self.coerce(r, tr, "OptInt"))
        if tl in ("Tok", "OptTok") and tr == "Static" and isinstance(r.v, str):
            return "(%s = %s)" % (self.coerce(l, tl, "OptTok"), self.coerce("(PM.tk \"%s\")" % r.v, "Tok", "OptTok"))
        if tl == "Bool" and tr == "Bool": return "(%s = %s)" % (l, r)
        if {tl, tr} <= {"Tok", "OptTok", "None"}:
            return "(%s = %s)" % (self.coerce(l, tl, "OptTok"), self.coerce(r, tr, "OptTok"))
        raise Untranslatable("== of %s and %s" % (tl, tr))

    # ------------------------------------------------------------------ statements
    def wrap(self, pre, inner):
        for t, txt, _ in reversed(pre):
            inner = "Except.bind (%s) (fun %s =>\n%s)" % (txt, t, inner)
        return inner

    def has(self, stmts, kinds):
        return any(isinstance(n, kinds) for s in stmts for n in ast.walk(s))

    def target_name(self, t):
        if isinstance(t, ast.Name): return t.id
        if isinstance(t, ast.Attribute) and isinstance(t.value, ast.Name): return t.value.id
        if isinstance(t, ast.Subscript) and isinstance(t.value, ast.Name): return t.value.id
        raise Untranslatable("assignment target")

    def assigned(self, stmts):
        out = []

        def add(n):
            if n not in out: out.append(n)
        for s in stmts:
            if isinstance(s, ast.Assign):
                for t in s.targets:
                    for el in (t.elts if isinstance(t, ast.Tuple) else [t]):
                        add(self.target_name(el))
                if isinstance(s.value, ast.Call) and isinstance(s.value.func, ast.Attribute) and s.value.func.attr == "_parse_numeric_token":
                    for a in s.value.args[3:5]:
                        if isinstance(a, ast.Name): add(a.id)
            elif isinstance(s, ast.AugAssign):
                add(self.target_name(s.target))
            elif isinstance(s, ast.If):
                for n in self.assigned(s.body) + self.assigned(s.orelse): add(n)
            elif isinstance(s, ast.Expr) and self.is_super_append(s.value):
                add("self")
            elif isinstance(s, ast.Expr) and self.mutating_call(s.value) is not None:
                add(self.mutating_call(s.value)[0])
            elif isinstance(s, ast.Try):
                for n in self.assigned(s.body) + [m for h in s.handlers for m in self.assigned(h.body)]: add(n)
            elif isinstance(s, ast.For):
                for n in self.assigned(s.body): add(n)
            elif isinstance(s, ast.While) and self.spec.loop:
                for n in self.spec.loop[2]: add(n)
        return out

    def mutating_call(self, v):
        """`ymd.append(val[, label])` / `self._assign_hms(res, value_repr, hms)`: (mutated object, builder of the call text)"""
        if not (isinstance(v, ast.Call) and isinstance(v.func, ast.Attribute) and isinstance(v.func.value, ast.Name)):
            return None
        recv = v.func.value.id
        rt = self.types.get(recv)
        if rt == "Ymd" and recv != "self" and v.func.attr == "append" and 1 <= len(v.args) <= 2 and not v.keywords:
            def build(pre):
                a, ta = self.E(v.args[0], pre)
                if ta in ("OptNat", "Int"): a, ta = self.coerce(a, ta, "Nat", pre), "Nat"
                if ta == "IntStr" and not (a.isidentifier() or a.startswith("(")): a = "(%s)" % a
                fn = {"Tok": "ymd_appendTok", "Dec": "ymd_appendDec", "Nat": "ymd_appendNat", "IntStr": "ymd_appendIntStr"}.get(ta)
                if fn is None: raise Untranslatable("ymd.append(%s)" % ta)
                lab = "PM.Label.none"
                if len(v.args) == 2:
                    l, tl = self.E(v.args[1], pre)
                    lab = self.label_of(l, tl)
                return "Gen.P.%s cls %s %s %s" % (fn, recv, a, lab)
            return recv, build
        if rt == "Parser" and v.func.attr == "_assign_hms" and len(v.args) == 3 and isinstance(v.args[0], ast.Name) \
                and self.types.get(v.args[0].id) == "Res":
            def build(pre):
                a, ta = self.E(v.args[1], pre); b, tb = self.E(v.args[2], pre)
                return "Gen.P.assignHms cls info %s %s %s" % (v.args[0].id, self.coerce(a, ta, "Tok", pre), self.coerce(b, tb, "Nat", pre))
            return v.args[0].id, build
        if rt == "Toks" and v.func.attr == "append" and len(v.args) == 1:
            def build(pre):
                a, ta = self.E(v.args[0], pre)
                return ".ok (%s ++ [%s])" % (recv, self.coerce(a, ta, "Tok", pre))
            return recv, build
        if rt == "NatList" and v.func.attr == "append" and len(v.args) == 1:
            def build(pre):
                a, ta = self.E(v.args[0], pre)
                return ".ok (%s ++ [%s])" % (recv, self.coerce(a, ta, "Nat", pre))
            return recv, build
        return None

    def is_super_append(self, v):
        return isinstance(v, ast.Call) and isinstance(v.func, ast.Attribute) and v.func.attr == "append" \
            and isinstance(v.func.value, ast.Call) and isinstance(v.func.value.func, ast.Name) \
            and v.func.value.func.id == "super" and ast.unparse(v.func.value) == "super(self.__class__, self)" \
            and len(v.args) == 1 and not v.keywords

    def reads(self, stmts):
        out = set()

        def visit(n, bound):
            if isinstance(n, (ast.ListComp, ast.DictComp, ast.GeneratorExp, ast.SetComp)):
                b = set(bound)
                for g in n.generators:
                    visit(g.iter, b)
                    b |= {m.id for m in ast.walk(g.target) if isinstance(m, ast.Name)}
                    for c in g.ifs: visit(c, b)
                for part in ([n.key, n.value] if isinstance(n, ast.DictComp) else [n.elt]):
                    visit(part, b)
                return
            if isinstance(n, ast.Name):
                if isinstance(n.ctx, ast.Load) and n.id not in bound: out.add(n.id)
                return
            for ch in ast.iter_child_nodes(n):
                visit(ch, bound)
        for s in stmts:
            visit(s, set())
        return out

    def live_in(self, stmts, live_out):
        """names whose value on entry to `stmts` can be read (by `stmts` or afterwards)"""
        live = set(live_out)
        for s in reversed(stmts):
            if isinstance(s, ast.Assign) and len(s.targets) == 1:
                t = s.targets[0]
                names = [el.id for el in (t.elts if isinstance(t, ast.Tuple) else [t]) if isinstance(el, ast.Name)]
                others = [el for el in (t.elts if isinstance(t, ast.Tuple) else [t]) if not isinstance(el, ast.Name)]
                live = (live - set(names)) | self.reads([ast.Expr(value=s.value)]) | self.reads([ast.Expr(value=o) for o in others])
            elif isinstance(s, ast.If):
                live = self.reads([ast.Expr(value=s.test)]) | self.live_in(s.body, live) | self.live_in(s.orelse, live)
            elif isinstance(s, ast.Return):
                r = self.spec.returns
                live = self.reads([s]) | (set(r if isinstance(r, list) else [r]) if r else set())
            elif isinstance(s, ast.Raise):
                live = set()
            else:
                live = live | self.reads([s])
        return live

    def returns_text(self):
        r = self.spec.returns
        return self.ret_text(r if isinstance(r, list) else [r])

    def ret_text(self, names):
        names = [self.lname(n) for n in names]
        if not names: return "()"
        return names[0] if len(names) == 1 else "(" + ", ".join(names) + ")"

    def unpack(self, names, src):
        if len(names) == 1:
            return "let %s := %s\n" % (self.lname(names[0]), src)
        out = ""
        for i, n in enumerate(names):
            proj = src + ".2" * i + (".1" if i < len(names) - 1 else "")
            out += "let %s := %s\n" % (self.lname(n), proj)
        return out

    def B(self, stmts, k, live_out):
        if not stmts:
            if k is None: raise Untranslatable("control falls off the end of a block that must return")
            return k()
        s, rest = stmts[0], stmts[1:]
        nxt = lambda: self.B(rest, k, live_out)
        if isinstance(s, ast.Pass):
            return nxt()
        if isinstance(s, ast.Expr):
            v = s.value
            if isinstance(v, ast.Constant): return nxt()                                   # docstring
            if self.is_super_append(v):
                if self.types.get("self") != "Ymd": raise Untranslatable("super().append outside _ymd")
                pre = []
                a, ta = self.E(v.args[0], pre)
                a = self.coerce(a, ta, "Nat", pre)
                return self.wrap(pre, "let self := { self with vals := self.vals ++ [%s] }\n%s" % (a, nxt()))
            m = self.mutating_call(v)
            if m is not None:
                obj, builder = m
                pre = []
                call = builder(pre)
                x = self.fresh("m")
                pre.append((x, call, self.types[obj]))
                return self.wrap(pre, "let %s := %s\n%s" % (self.lname(obj), x, nxt()))
            raise Untranslatable("expression statement %s" % ast.unparse(v)[:40])
        if isinstance(s, ast.AugAssign):
            return self.assign(s.target, ast.BinOp(left=s.target, op=s.op, right=s.value), nxt)
        if isinstance(s, ast.Assign):
            if len(s.targets) != 1: raise Untranslatable("chained assignment")
            return self.assign(s.targets[0], s.value, nxt)
        if isinstance(s, ast.Assert):
            pre = []
            c = self.C(s.test, pre)
            if c is True: return nxt()
            return self.wrap(pre, "if ¬ %s then .error .AssertionError else\n%s" % (self.prop_of(c), nxt()))
        if isinstance(s, ast.Raise):
            exc = s.exc
            name = exc.func.id if isinstance(exc, ast.Call) and isinstance(exc.func, ast.Name) else \
                (exc.id if isinstance(exc, ast.Name) else None)
            if name not in ERRS: raise Untranslatable("raise %r" % name)
            return ".error .%s" % name
        if isinstance(s, ast.Return):
            if self.spec.returns:
                return ".ok %s" % self.returns_text()
            if s.value is None: raise Untranslatable("bare return")
            pre = []
            t, ty = self.E(s.value, pre)
            if ty == "Static": raise Untranslatable("return of a static value")
            if ty == "StaticBool": ty = "Bool"
            if ty == "ADt" and self.spec.ret == "ResultA":
                t, ty = "({ dt := %s.dt, tz := %s.tz, tokens := none } : PM.ResultA)" % (t, t), "ResultA"
            t = self.coerce(t, ty, self.spec.ret, pre)
            return self.wrap(pre, ".ok %s" % t)
        if isinstance(s, ast.While):
            if not self.spec.loop: raise Untranslatable("while loop")
            fn_, args, state = self.spec.loop
            for a in args:
                if a not in self.types: raise Untranslatable("loop variable %s is not bound" % a)
            self.uses_fuel = True
            x = self.fresh("w")
            out = ""
            for k2, n in enumerate(state):
                out += "let %s := %s\n" % (self.lname(n), x + ".2" * k2 + (".1" if k2 < len(state) - 1 else ""))
            return "Except.bind (%s fuel cls info %s) (fun %s =>\n%s%s)" % (fn_, " ".join(self.lname(a) for a in args), x, out, nxt())
        if isinstance(s, ast.For) and isinstance(s.iter, ast.Call) and isinstance(s.iter.func, ast.Name) and s.iter.func.id == "enumerate" \
                and len(s.iter.args) == 1 and isinstance(s.target, ast.Tuple) and len(s.target.elts) == 2 \
                and all(isinstance(x, ast.Name) for x in s.target.elts) and not s.orelse \
                and not self.has(s.body, (ast.Break, ast.Continue, ast.Return)):
            # a loop over a list computed at run time: a structurally recursive auxiliary function over that list, with the index
            pre = []
            it, ti = self.E(s.iter.args[0], pre)
            if ti != "NatList": raise Untranslatable("enumerate over %s" % ti)
            iv, xv = s.target.elts[0].id, s.target.elts[1].id
            live_after = self.live_in(rest, live_out)
            state = [v for v in self.assigned(s.body) if v in live_after or v in self.reads(s.body)]
            free = sorted(n for n in self.reads(s.body) if n in self.types and n not in state and n not in (iv, xv, "self", "info")
                          and self.types[n] not in ("Parser",))
            aux = "%s_loop" % self.spec.leanname
            sub = Tr(self.spec, self.tree)
            sub.types = dict(self.types); sub.static = dict(self.static); sub.tmp = 100
            sub.types[iv] = "Nat"; sub.types[xv] = "Nat"
            lead = "cls " if any(c[0] == "cls" for c in self.spec.ctx) else ""
            call = lambda: "%s %sinfo %s rest_ (%s + 1) %s" % (aux, lead, " ".join(sub.lname(n) for n in free), iv,
                                                              " ".join(sub.lname(n) for n in state))
            body = sub.B(s.body, call, set(state))
            for v in state:
                if sub.types.get(v) != self.types.get(v): raise Untranslatable("loop variable %s changes type" % v)
            sty = " × ".join(lty(self.types[v]) for v in state)
            self.aux.append(
                "/-- the `for … in enumerate(…)` loop of `%s`, by recursion on the list being enumerated -/\ndef %s %s(info : PM.Info) %s : List Nat → Nat → %s → Py.R (%s)\n| [], _, %s => .ok %s\n| %s :: rest_, %s, %s =>\n%s\n" % (
                    self.spec.qualname, aux, "(cls : Char → PM.CClass) " if lead else "",
                    " ".join("(%s : %s)" % (self.lname(n), lty(self.types[n])) for n in free),
                    " → ".join(lty(self.types[v]) for v in state), sty, ", ".join(self.lname(v) for v in state), self.ret_text(state),
                    xv, iv, ", ".join(self.lname(v) for v in state), body))
            tmp = self.fresh("j")
            return self.wrap(pre, "Except.bind (%s %sinfo %s %s 0 %s) (fun %s =>\n%s%s)" % (
                aux, lead, " ".join(self.lname(n) for n in free), it, " ".join(self.lname(v) for v in state), tmp,
                self.unpack(state, tmp), nxt()))
        if isinstance(s, ast.For):
            if s.orelse or not isinstance(s.target, ast.Name) or not isinstance(s.iter, (ast.Tuple, ast.List)) \
                    or not all(isinstance(x, ast.Constant) for x in s.iter.elts) or self.has(s.body, (ast.Break, ast.Continue, ast.Return)):
                raise Untranslatable("for loop that is not over a literal tuple of constants")
            items = [x.value for x in s.iter.elts]
            var = s.target.id
            after_live = self.live_in(rest, live_out) | self.reads(s.body)

            def iteration(j):
                if j == len(items):
                    self.static.pop(var, None)
                    return nxt()
                self.static[var] = items[j]
                self.types.pop(var, None)
                return self.B(s.body, lambda: iteration(j + 1), after_live)
            return iteration(0)
        if isinstance(s, ast.Try):
            return self.try_(s, rest, k, live_out)
        if isinstance(s, ast.If):
            return self.if_(s, rest, k, live_out)
        raise Untranslatable("statement %s" % type(s).__name__)

    def try_exception(self, s, rest, k, live_out):
        """try: BODY  except Exception as e: <raise E>  else: ELSE   — any exception of BODY becomes E"""
        h = s.handlers[0]
        hb = [x for x in h.body if not (isinstance(x, ast.Assign) and isinstance(x.value, ast.BinOp)
                                         and isinstance(x.value.left, ast.Constant) and isinstance(x.value.left.value, str))]
        if len(hb) != 1: raise Untranslatable("except Exception: handler shape")
        v = hb[0].value if isinstance(hb[0], ast.Expr) else None
        if not (isinstance(v, ast.Call) and ast.unparse(v.func) == "six.raise_from" and len(v.args) == 2
                and isinstance(v.args[0], ast.Call) and isinstance(v.args[0].func, ast.Name) and v.args[0].func.id in ERRS
                and isinstance(v.args[1], ast.Name) and v.args[1].id == h.name):
            raise Untranslatable("except Exception: handler is not six.raise_from(E(...), e)")
        err = v.args[0].func.id
        only = None if h.type.id == "Exception" else h.type.id
        if s.finalbody or self.has(s.body, ast.Return): raise Untranslatable("try/except Exception shape")
        live = self.reads(s.orelse + rest) | set(live_out)
        vs = [x for x in self.assigned(s.body) if x in live]
        body = self.B(s.body, lambda: ".ok %s" % self.ret_text(vs), live)
        tmp = self.fresh("j") if vs else "_"
        after = self.B(s.orelse + rest, k, live_out)
        arm = "| .error _ => .error .%s" % err if only is None else \
            "| .error e_ => if e_ = .%s then .error .%s else .error e_" % (only, err)
        return "(match (%s) with\n%s\n| .ok %s =>\n%s%s)" % (
            body, arm, tmp, self.unpack(vs, tmp) if vs else "", after)

    def try_(self, s, rest, k, live_out):
        """try: return <expr with one D[key]>  except KeyError: S"""
        if len(s.handlers) == 1 and isinstance(s.handlers[0].type, ast.Name) and s.handlers[0].type.id == "Exception":
            return self.try_exception(s, rest, k, live_out)
        if len(s.handlers) == 1 and isinstance(s.handlers[0].type, ast.Name) and s.handlers[0].type.id == "ValueError" \
                and s.handlers[0].name and any(isinstance(n, ast.Call) and ast.unparse(n.func) == "six.raise_from"
                                               for n in ast.walk(s.handlers[0])):
            return self.try_exception(s, rest, k, live_out)
        if len(s.handlers) == 1 and isinstance(s.handlers[0].type, ast.Tuple) and not s.orelse and not s.finalbody \
                and all(isinstance(x, ast.Name) and x.id in ERRS for x in s.handlers[0].type.elts) \
                and s.handlers[0].body and isinstance(s.handlers[0].body[-1], ast.Return) and not self.has(s.body, ast.Return):
            kinds = [x.id for x in s.handlers[0].type.elts]
            live = self.live_in(rest, live_out)
            vs = [x for x in self.assigned(s.body) if x in live]
            saved = (dict(self.types), dict(self.static), dict(self.narrow))
            body = self.B(s.body, lambda: ".ok %s" % self.ret_text(vs), live)
            after_types = dict(self.types)
            self.types, self.static, self.narrow = dict(saved[0]), dict(saved[1]), dict(saved[2])
            handler = self.B(s.handlers[0].body, None, live_out)
            self.types = after_types
            tmp = self.fresh("j") if vs else "_"
            after = self.B(rest, k, live_out)
            cond = " ∨ ".join("e_ = .%s" % kk for kk in kinds)
            return "(match (%s) with\n| .error e_ => if (%s) then\n%s\nelse .error e_\n| .ok %s =>\n%s%s)" % (
                body, cond, handler, tmp, self.unpack(vs, tmp) if vs else "", after)
        h0 = s.handlers[0] if len(s.handlers) == 1 else None
        if h0 is not None and isinstance(h0.type, ast.Name) and h0.type.id == "ValueError" and not s.orelse and not s.finalbody \
                and len(s.body) == 1 and isinstance(s.body[0], ast.Assign) and isinstance(s.body[0].targets[0], ast.Name) \
                and isinstance(s.body[0].value, ast.Call) and isinstance(s.body[0].value.func, ast.Name) \
                and s.body[0].value.func.id == "float" and len(s.body[0].value.args) == 1 and len(h0.body) == 1 \
                and isinstance(h0.body[0], ast.Assign) and isinstance(h0.body[0].targets[0], ast.Name) \
                and h0.body[0].targets[0].id == s.body[0].targets[0].id and isinstance(h0.body[0].value, ast.Constant) \
                and h0.body[0].value.value is None:
            # try: v = float(tok)  except ValueError: v = None      (only `v is None` is ever asked)
            pre = []
            a, ta = self.E(s.body[0].value.args[0], pre)
            if ta != "Tok": raise Untranslatable("float(%s)" % ta)
            n = s.body[0].targets[0].id
            self.types[n] = "OptFloat"; self.static.pop(n, None)
            return self.wrap(pre, "let %s : Option Unit := (if PM.floatOk cls %s = true then some () else none)\n%s" % (
                self.lname(n), a, self.B(rest, k, live_out)))
        if len(s.handlers) != 1 or s.orelse or s.finalbody or len(s.body) != 1 or not isinstance(s.body[0], ast.Return):
            raise Untranslatable("try statement shape")
        h = s.handlers[0]
        if not (isinstance(h.type, ast.Name) and h.type.id == "KeyError"): raise Untranslatable("except %s" % ast.unparse(h.type))
        subs = [n for n in ast.walk(s.body[0].value) if isinstance(n, ast.Subscript)]
        if len(subs) != 1: raise Untranslatable("try body with %d subscripts" % len(subs))
        pre = []
        d, td = self.E(subs[0].value, pre)
        kx, tk = self.E(subs[0].slice, pre)
        if td != "TokNatDict" or tk != "Tok" or pre: raise Untranslatable("try around %s[%s]" % (td, tk))
        if any(isinstance(n, ast.Call) and n is not subs[0].slice for n in ast.walk(s.body[0].value)
               if not any(n is m for m in ast.walk(subs[0]))):
            raise Untranslatable("call inside a try body")
        self.narrow[self.src(subs[0])] = ("v_", "Nat")
        hit = self.B([s.body[0]], None, live_out)
        del self.narrow[self.src(subs[0])]
        miss = self.B(h.body + rest, k, live_out)
        return "(match PM.lookupLast %s %s with\n| some v_ =>\n%s\n| none =>\n%s)" % (d, kx, hit, miss)

    def assign(self, target, value, nxt):
        pre = []
        if isinstance(target, ast.Tuple) and all(isinstance(tg, ast.Attribute) for tg in target.elts):
            # (res.minute, res.second) = <pair>
            t, ty = self.E(value, pre)
            if ty not in PAIR_TYPES or len(target.elts) != 2: raise Untranslatable("tuple assignment from %s" % ty)
            out = ""
            for i, tg in enumerate(target.elts):
                if not (isinstance(tg.value, ast.Name) and self.types.get(tg.value.id) == "Res" and tg.attr in RES_FIELDS):
                    raise Untranslatable("tuple assignment target")
                f, fty = RES_FIELDS[tg.attr]
                obj = tg.value.id
                out += "let %s := { %s with %s := %s }\n" % (obj, obj, f, self.coerce("%s.%d" % (t, i + 1), PAIR_TYPES[ty][i], fty, pre))
            return self.wrap(pre, out + nxt())
        if isinstance(target, ast.Tuple):
            names = []
            for tg in target.elts:
                if not isinstance(tg, ast.Name): raise Untranslatable("tuple assignment target")
                names.append(tg.id)
            if isinstance(value, ast.Tuple) and len(value.elts) == len(names):
                vals = [self.E(v, pre) for v in value.elts]
                out = ""
                for n, (t, ty) in zip(names, vals):
                    out += self.bind_name(n, t, ty, pre)
                return self.wrap(pre, out + nxt())
            t, ty = self.E(value, pre)
            if ty == "ParseRet" and len(names) == 2:
                out = self.bind_name(names[0], "(%s.map (·.1))" % t, "OptRes", pre)
                out += self.bind_name(names[1], "(%s.bind (·.2))" % t, "OptToks", pre)
                return self.wrap(pre, out + nxt())
            if ty == "YMD" and len(names) == 3:
                out = ""
                for i2, n in enumerate(names):
                    proj = t + ".2" * i2 + (".1" if i2 < 2 else "")
                    out += self.bind_name(n, proj, "OptNat", pre)
                return self.wrap(pre, out + nxt())
            if ty in PAIR_TYPES and len(names) == 2:
                out = ""
                for i, n in enumerate(names):
                    out += self.bind_name(n, "%s.%d" % (t, i + 1), PAIR_TYPES[ty][i], pre)
                return self.wrap(pre, out + nxt())
            if ty == "Ymd" and len(names) in (2, 3):                          # `year, month = self`
                x = self.fresh("u")
                pre.append((x, "PPy.unpack%d %s.vals" % (len(names), t), "Tuple"))
                out = ""
                for i, n in enumerate(names):
                    proj = x + ".2" * i + (".1" if i < len(names) - 1 else "")
                    out += self.bind_name(n, proj, "Nat", pre)
                return self.wrap(pre, out + nxt())
            raise Untranslatable("tuple assignment from %s" % ty)
        if isinstance(target, ast.Name) and isinstance(value, ast.Tuple) and value.elts and \
                all(isinstance(x, ast.Tuple) and len(x.elts) == 2 and isinstance(x.elts[0], ast.Constant) for x in value.elts):
            # a tuple of (constant, expr) pairs: kept static
            self.static[target.id] = tuple((x.elts[0].value, self.E(x.elts[1], pre)) for x in value.elts)
            if pre: raise Untranslatable("raising element in a static tuple")
            return nxt()
        if isinstance(target, ast.Name) and isinstance(value, ast.Call) and isinstance(value.func, ast.Attribute) \
                and value.func.attr == "_parse_numeric_token" and self.types.get("self") == "Parser":
            names = [a.id if isinstance(a, ast.Name) else None for a in value.args]
            if len(names) != 6 or None in names or [self.types.get(n) for n in names] != ["Toks", "Nat", "Info", "Ymd", "Res", "Bool"] \
                    or names[2] != "info":
                raise Untranslatable("arguments of self._parse_numeric_token")
            x = self.fresh("r")
            pre.append((x, "Gen.P.parseNumericToken cls info %s %s %s %s %s" % (names[0], names[1], names[3], names[4], names[5]), "NumRet"))
            out = self.bind_name(target.id, x + ".1", "Nat", pre)
            out += "let %s := %s.2.1\nlet %s := %s.2.2\n" % (names[3], x, names[4], x)
            return self.wrap(pre, out + nxt())
        t, ty = self.E(value, pre)
        if isinstance(target, ast.Name) and isinstance(value, ast.List) and not value.elts and self.spec.locals.get(target.id) == "Toks":
            t, ty = "([] : List PM.Token)", "Toks"
        if isinstance(target, ast.Name) and ty == "Info":
            if t != "info" or target.id != "info": raise Untranslatable("a second parserinfo")
            return nxt()
        if isinstance(target, ast.Name):
            if ty == "Static":
                if self.types.get(target.id) == "Label" or self.spec.locals.get(target.id) == "Label":
                    t, ty = self.label_of(t, ty), "Label"
                else:
                    self.static[target.id] = t.v
                    self.types.pop(target.id, None)
                    return nxt()
            return self.wrap(pre, self.bind_name(target.id, t, ty, pre) + nxt()) if not pre else \
                self.wrap_late(pre, target.id, t, ty, nxt)
        if isinstance(target, ast.Attribute) and isinstance(target.value, ast.Name):
            obj = target.value.id
            oty = self.types.get(obj)
            if oty == "Info" and self.spec.self_type == "InfoInit" and target.attr in INFO_FIELDS:
                f, fty = INFO_FIELDS[target.attr]
                if fty == "TokSet" and ty == "TokNatDict": t, ty = "(List.map Prod.fst %s)" % t, "TokSet"      # only the keys are ever asked
                if fty != ty: t = self.coerce(t, ty, fty, pre)
                return self.wrap(pre, "let %s := { %s with %s := %s }\n%s" % (obj, obj, f, t, nxt()))
            tbl = {"Ymd": YMD_FIELDS, "Res": RES_FIELDS}.get(oty)
            if tbl is None or target.attr not in tbl: raise Untranslatable("assignment to %s.%s" % (oty, target.attr))
            f, fty = tbl[target.attr]
            if ty == "Static" and fty == "OptTok": t, ty = "(PM.tk \"%s\")" % t.v, "Tok"
            t = self.coerce(t, ty, fty, pre)
            return self.wrap(pre, "let %s := { %s with %s := %s }\n%s" % (obj, obj, f, t, nxt()))
        if isinstance(target, ast.Subscript) and isinstance(target.value, ast.Name) and self.types.get(target.value.id) == "Repl":
            d = target.value.id
            kx, tk = self.E(target.slice, pre)
            if tk != "Static" or kx.v not in REPL_KEYS: raise Untranslatable("dict key")
            return self.wrap(pre, "let %s := { %s with %s := some %s }\n%s" % (d, d, kx.v, self.coerce(t, ty, "Nat", pre), nxt()))
        if isinstance(target, ast.Subscript) and isinstance(target.value, ast.Name) and self.types.get(target.value.id) == "Toks":
            d = target.value.id
            ix, ti = self.E(target.slice, pre)
            if ti == "Int" and ix == "(-1)":
                return self.wrap(pre, "Except.bind (PPy.toksSetLast %s %s) (fun l_ =>\nlet %s := l_\n%s)" % (
                    d, self.coerce(t, ty, "Tok", pre), self.lname(d), nxt()))
            if ti != "Nat": raise Untranslatable("token list index of type %s" % ti)
            # `l[k] = v` for an index already read (`l[k]` evaluated in `value`): IndexError otherwise
            return self.wrap(pre, "Except.bind (PPy.toksSet %s %s %s) (fun l_ =>\nlet %s := l_\n%s)" % (
                d, ix, self.coerce(t, ty, "Tok", pre), self.lname(d), nxt()))
        if isinstance(target, ast.Subscript) and isinstance(target.value, ast.Name) and self.types.get(target.value.id) == "Strids":
            d = target.value.id
            kx, tk = self.E(target.slice, pre)
            return self.wrap(pre, "let %s := PPy.dictSet %s %s %s\n%s" % (d, d, self.char_of(kx, tk), self.coerce(t, ty, "Nat", pre), nxt()))
        raise Untranslatable("assignment target")

    def wrap_late(self, pre, name, t, ty, nxt):
        n0 = len(pre)
        text = self.bind_name(name, t, ty, pre)
        return self.wrap(pre, text + nxt())

    def bind_name(self, n, t, ty, pre):
        want = self.spec.locals.get(n)
        if ty == "Static":
            raise Untranslatable("static value bound in a tuple assignment")
        if want:
            t = self.coerce(t, ty, want, pre); ty = want
        elif ty == "None":
            raise Untranslatable("local %s is bound to None and has no declared type" % n)
        self.static.pop(n, None)
        self.types[n] = ty
        for kk in [kk for kk in self.narrow if ("id='%s'" % n) in kk]:
            del self.narrow[kk]
        return "let %s : %s := %s\n" % (self.lname(n), lty(ty), t) if ty in LEAN_TY else "let %s := %s\n" % (self.lname(n), t)

    def validate_always_true(self):
        fn = find_function(self.tree, "parserinfo.validate")
        rets = [n for n in ast.walk(fn) if isinstance(n, ast.Return)]
        return bool(rets) and all(isinstance(r.value, ast.Constant) and r.value.value is True for r in rets) \
            and isinstance(fn.body[-1], ast.Return)

    def if_(self, s, rest, k, live_out):
        t = s.test
        if isinstance(t, ast.UnaryOp) and isinstance(t.op, ast.Not) and isinstance(t.operand, ast.Call) \
                and isinstance(t.operand.func, ast.Attribute) and t.operand.func.attr == "validate" \
                and isinstance(t.operand.func.value, ast.Name) and self.types.get(t.operand.func.value.id) == "Info" \
                and len(t.operand.args) == 1 and isinstance(t.operand.args[0], ast.Name) \
                and self.types.get(t.operand.args[0].id) == "Res" and not s.orelse:
            # `if not info.validate(res): …` — validate writes into `res` and (checked on its AST now) only ever returns True
            if not self.validate_always_true(): raise Untranslatable("parserinfo.validate does not always return True")
            r = t.operand.args[0].id
            x = self.fresh("v")
            return "Except.bind (Gen.P.info_validate %s %s) (fun %s =>\nlet %s := %s\n%s)" % (
                t.operand.func.value.id, r, x, r, x, self.B(rest, k, live_out))
        pre = []
        c = self.C(s.test, pre)
        if isinstance(c, bool):
            return self.wrap(pre, self.B((s.body if c else s.orelse) + rest, k, live_out))
        saved = (dict(self.types), dict(self.static), dict(self.narrow))

        def branch(stmts, kk, lo):
            self.types, self.static, self.narrow = dict(saved[0]), dict(saved[1]), dict(saved[2])
            return self.B(stmts, kk, lo)

        if self.has(s.body + s.orelse, ast.Return):
            cont = lambda: self.B(rest, k, live_out)
            thn = branch(s.body, cont, live_out)
            els = branch(s.orelse, cont, live_out)
            self.types, self.static, self.narrow = saved
            return self.wrap(pre, "(if %s then\n%s\nelse\n%s)" % (c, thn, els))
        live = self.live_in(rest, live_out)
        vs = [v for v in self.assigned([s]) if v in live]
        def never_falls(stmts):
            if not stmts: return False
            last = stmts[-1]
            if isinstance(last, (ast.Raise, ast.Return)): return True
            return isinstance(last, ast.If) and never_falls(last.body) and never_falls(last.orelse)
        for v in vs:
            if v not in saved[0] and not ((v in self.assigned(s.body) or never_falls(s.body))
                                          and (v in self.assigned(s.orelse) or never_falls(s.orelse))):
                raise Untranslatable("variable %s assigned in one branch only and used later" % v)
        tys = []

        def tail():
            if any(v in self.static for v in vs): raise Untranslatable("static value crosses a join")
            p2, out = [], []
            for v in vs:
                want = self.spec.locals.get(v)
                if want and self.types.get(v) != want:
                    out.append(self.coerce(self.lname(v), self.types.get(v), want, p2)); self.types[v] = want
                else:
                    out.append(self.lname(v))
            tys.append({v: self.types.get(v) for v in vs})
            txt = "()" if not out else out[0] if len(out) == 1 else "(" + ", ".join(out) + ")"
            return self.wrap(p2, ".ok %s" % txt)
        thn = branch(s.body, tail, live)
        els = branch(s.orelse, tail, live)
        self.types, self.static, self.narrow = saved
        for v in vs:
            ts = set(t[v] for t in tys)
            if len(ts) != 1: raise Untranslatable("variable %s has types %s after a join" % (v, sorted(map(str, ts))))
            self.types[v] = ts.pop()
        tmp = self.fresh("j") if vs else "_"
        return self.wrap(pre, "Except.bind (if %s then\n%s\nelse\n%s) (fun %s =>\n%s%s)" % (
            c, thn, els, tmp, self.unpack(vs, tmp) if vs else "", self.B(rest, k, live_out)))

    # ------------------------------------------------------------------ function
    def function(self, fn, relfile):
        sp = self.spec
        params = ["(%s : %s)" % c for c in sp.ctx]
        if sp.self_type in ("Ymd", "Info"):
            params.append("(self : %s)" % lty(sp.self_type))
            self.types["self"] = sp.self_type
        elif sp.self_type == "InfoInit":
            params.append("(tables : PPy.InfoTables) (now_year : Int)")
            self.types["self"] = "Info"
            self.init_head = "let self : PM.Info := PPy.infoOfClass tables\n"
        elif sp.self_type == "Parser":
            params.append("(info : PM.Info)")
            self.types["self"] = "Parser"
            self.types["info"] = "Info"
        declared = dict(sp.params)
        for a in (fn.args.args if sp.part is None else []):  # (parts declare their free variables in the spec)
            n = a.arg
            if n == "self": continue
            if n not in declared: raise Untranslatable("parameter %s of %s has no declared type" % (n, sp.qualname))
            if declared[n] == "Skip": continue
            self.types[n] = declared[n]
            if not (n == "info" and sp.self_type == "Parser"):
                params.append("(%s : %s)" % (self.lname(n), lty(declared[n])))
        stmts = fn.body
        if sp.part == "from-_parse-call":
            idx = [k2 for k2, st in enumerate(fn.body) if isinstance(st, ast.Assign) and isinstance(st.value, ast.Call)
                   and ast.unparse(st.value.func) == "self._parse"]
            if len(idx) != 1: raise Untranslatable("%s: exactly one top-level `… = self._parse(…)` is expected" % sp.qualname)
            stmts = fn.body[idx[0]:]
            for n, t in sp.params:
                if t != "Skip" and n not in self.types:
                    self.types[n] = t
                    params.append("(%s : %s)" % (self.lname(n), lty(t)))
        if sp.part == "while-body":
            loops = [n for n in ast.walk(fn) if isinstance(n, ast.While)]
            if len(loops) != 1 or loops[0].orelse: raise Untranslatable("%s: exactly one while loop is expected" % sp.qualname)
            if any(isinstance(n, (ast.Break, ast.Continue, ast.Return)) for st in loops[0].body for n in ast.walk(st)):
                raise Untranslatable("break / continue / return inside the loop")
            stmts = loops[0].body
            for n, t in sp.params:
                if t != "Skip" and n not in self.types:
                    self.types[n] = t
                    if not (n == "info" and sp.self_type == "Parser"):
                        params.append("(%s : %s)" % (self.lname(n), lty(t)))
        if sp.part == "while":
            # `while c: BODY` with BODY translated separately (part "while-body", same state tuple): a fuel-bounded recursion;
            # out of fuel is the distinguished error NotImplemented
            loops = [n for n in ast.walk(fn) if isinstance(n, ast.While)]
            if len(loops) != 1 or loops[0].orelse: raise Untranslatable("%s: exactly one while loop is expected" % sp.qualname)
            for n, t in sp.params:
                if t != "Skip" and n not in self.types:
                    self.types[n] = t
                    if not (n == "info" and sp.self_type == "Parser"):
                        params.append("(%s : %s)" % (self.lname(n), lty(t)))
            pre = []
            c = self.C(loops[0].test, pre)
            if pre or isinstance(c, bool): raise Untranslatable("loop condition")
            state = sp.returns
            names = [n for n, t in sp.params if t != "Skip" and not (n == "info" and sp.self_type == "Parser")]
            def arg(n):
                if n in state:
                    k = state.index(n)
                    return "s_" + ".2" * k + (".1" if k < len(state) - 1 else "")
                return self.lname(n)
            lead = " ".join(a.split(":")[0].strip("( ") for a in params[:len(params) - len(names)])
            call = "%s fuel %s %s" % (sp.leanname, lead, " ".join(arg(n) for n in names))
            body = "%s %s %s" % (sp.body_fn, lead, " ".join(self.lname(n) for n in names))
            return ("/-- translated from `%s:%s` (the `while` loop; its body is `%s`) -/\ndef %s (fuel : Nat) %s : Py.R (%s) :=\n"
                    "if %s then\n(match fuel with\n| 0 => .error .NotImplemented\n| fuel + 1 =>\nExcept.bind (%s) (fun s_ =>\n%s))\n"
                    "else .ok %s\n") % (relfile, sp.qualname, sp.body_fn, sp.leanname, " ".join(params), lty(sp.ret), c, body, call,
                                       self.ret_text(state))
        if sp.returns:
            k = lambda: ".ok %s" % self.returns_text()
            live = set(sp.returns) if isinstance(sp.returns, list) else {sp.returns}
        else:
            def k():
                raise Untranslatable("control falls off the end of the function")
            live = set()
        body = self.B(stmts, k, live)
        if getattr(self, "uses_fuel", False): params.insert(0, "(fuel : Nat)")
        body = getattr(self, "init_head", "") + body
        return "".join(self.aux) + "/-- translated from `%s:%s`%s -/\ndef %s %s : Py.R (%s) :=\n%s\n" % (
            relfile, sp.qualname, " (%s)" % ", ".join("%s : %s" % p for p in sp.params) if sp.params else "",
            sp.leanname, " ".join(params), lty(sp.ret), body)


def indent(text):
    out, depth = [], 1
    for line in text.split("\n"):
        s = line.strip()
        if not s:
            continue
        if s.startswith("def ") or s.startswith("/--"):
            out.append(s); depth = 1; continue
        lead = len(s) - len(s.lstrip(")"))
        out.append("  " * max(1, depth - lead) + s)
        depth += s.count("(") - s.count(")")
    return "\n".join(out) + "\n"


CLS = ("cls", "Char → PM.CClass")
# methods of `parser` that are themselves translated: name -> (Lean function, argument types, result type)
PARSER_METHODS = {"_to_decimal": ("Gen.P.toDecimal cls info", ["Tok"], "Dec"),
                  "_parse_min_sec": ("Gen.P.parseMinSec info", ["Dec"], "NatOptPair"),
                  "_parsems": ("Gen.P.parsems cls info", ["Tok"], "NatPair"),
                  "_find_hms_idx": ("Gen.P.findHmsIdx info", ["Nat", "Toks", "Info", "Bool"], "OptNat",
                                    ["idx", "tokens", "info", "allow_jump"]),
                  "_parse_hms": ("Gen.P.parseHms info", ["Nat", "Toks", "Info", "OptNat"], "NatOptPair",
                                 ["idx", "tokens", "info", "hms_idx"]),
                  "_ampm_valid": ("Gen.P.ampmValid info", ["OptNat", "OptNat", "Bool"], "Bool"),
                  "_could_be_tzname": ("Gen.P.couldBeTzname info", ["OptNat", "OptTok", "OptInt", "Tok"], "Bool")}
YMD_PROPS = ["_ymd.has_year", "_ymd.has_month", "_ymd.has_day"]

INFO = dict(self_type="Info")
PARSER_SPECS = [
    # ---- parserinfo: the word-table lookups and validate
    PFn("parserinfo.jump", "info_jump", [("name", "Tok")], "Bool", **INFO),
    PFn("parserinfo.weekday", "info_weekday", [("name", "Tok")], "OptNat", **INFO),
    PFn("parserinfo.month", "info_month", [("name", "Tok")], "OptNat", **INFO),
    PFn("parserinfo.hms", "info_hms", [("name", "Tok")], "OptNat", **INFO),
    PFn("parserinfo.ampm", "info_ampm", [("name", "Tok")], "OptNat", **INFO),
    PFn("parserinfo.pertain", "info_pertain", [("name", "Tok")], "Bool", **INFO),
    PFn("parserinfo.utczone", "info_utczone", [("name", "Tok")], "Bool", **INFO),
    PFn("parserinfo.tzoffset", "info_tzoffset", [("name", "Tok")], "OptInt", **INFO),
    PFn("parserinfo.__init__", "info_init", [("dayfirst", "Bool"), ("yearfirst", "Bool")], "Info", self_type="InfoInit",
        returns="self"),
    PFn("parserinfo.validate", "info_validate", [("res", "Res")], "Res", returns="res", **INFO),
    # ---- parser: the small methods
    PFn("parser._could_be_tzname", "couldBeTzname", [("hour", "OptNat"), ("tzname", "OptTok"), ("tzoffset", "OptInt"),
                                                      ("token", "Tok")], "Bool", self_type="Parser"),
    PFn("parser._ampm_valid", "ampmValid", [("hour", "OptNat"), ("ampm", "OptNat"), ("fuzzy", "Bool")], "Bool",
        self_type="Parser"),
    PFn("parser._to_decimal", "toDecimal", [("val", "Tok")], "Dec", self_type="Parser", ctx=[CLS]),
    PFn("parser._parse_min_sec", "parseMinSec", [("value", "Dec")], "NatOptPair", self_type="Parser",
        locals_={"second": "OptNat"}),
    PFn("parser._parsems", "parsems", [("value", "Tok")], "NatPair", self_type="Parser", ctx=[CLS]),
    PFn("parser._assign_hms", "assignHms", [("res", "Res"), ("value_repr", "Tok"), ("hms", "Nat")], "Res",
        self_type="Parser", ctx=[CLS], returns="res"),
    PFn("parser._find_hms_idx", "findHmsIdx", [("idx", "Nat"), ("tokens", "Toks"), ("info", "Info"), ("allow_jump", "Bool")],
        "OptNat", self_type="Parser", locals_={"hms_idx": "OptNat"}),
    PFn("parser._parse_hms", "parseHms", [("idx", "Nat"), ("tokens", "Toks"), ("info", "Info"), ("hms_idx", "OptNat")],
        "NatOptPair", self_type="Parser", locals_={"hms": "OptNat", "new_idx": "Nat"}),
    PFn("parser._build_naive", "buildNaive", [("res", "Res"), ("default", "DT")], "DT", self_type="Parser"),
    PFn("parser._build_tzinfo", "buildTzinfo", [("tzinfos", "TzInfos"), ("tzname", "OptTok"), ("tzoffset", "OptInt")], "TzObj",
        self_type="Parser", locals_={"tzinfo": "TzObj"}),
    PFn("parser._assign_tzname", "assignTzname", [("dt", "FoldDt"), ("tzname", "OptTok")], "FoldDt", self_type="Parser"),
    # ---- _ymd
    PFn("_ymd.could_be_day", "ymd_couldBeDay", [("value", "Dec")], "Bool", self_type="Ymd", inlines=YMD_PROPS),
    PFn("_ymd.append", "ymd_appendTok", [("val", "Tok"), ("label", "Label")], "Ymd", self_type="Ymd", ctx=[CLS],
        returns="self", inlines=YMD_PROPS),
    PFn("_ymd.append", "ymd_appendDec", [("val", "Dec"), ("label", "Label")], "Ymd", self_type="Ymd", ctx=[CLS],
        returns="self", inlines=YMD_PROPS),
    PFn("_ymd.append", "ymd_appendNat", [("val", "Nat"), ("label", "Label")], "Ymd", self_type="Ymd", ctx=[CLS],
        returns="self", inlines=YMD_PROPS),
    PFn("_ymd.append", "ymd_appendIntStr", [("val", "IntStr"), ("label", "Label")], "Ymd", self_type="Ymd", ctx=[CLS],
        returns="self", inlines=YMD_PROPS),
    PFn("_ymd._resolve_from_stridxs", "ymd_resolveFromStridxs", [("strids", "Strids")], "YMD", self_type="Ymd",
        locals_={"key": None}),
    PFn("_ymd.resolve_ymd", "ymd_resolveYmd", [("yearfirst", "Bool"), ("dayfirst", "Bool")], "YMD", self_type="Ymd",
        locals_={"year": "OptNat", "month": "OptNat", "day": "OptNat"}),
    # ---- parser: the token-level functions (they call the ones above)
    PFn("parser._parse_numeric_token", "parseNumericToken",
        [("tokens", "Toks"), ("idx", "Nat"), ("info", "Info"), ("ymd", "Ymd"), ("res", "Res"), ("fuzzy", "Bool")], "NumRet",
        self_type="Parser", ctx=[CLS], returns=["idx", "ymd", "res"], locals_={"idx": "Nat"}, inlines=YMD_PROPS),
    PFn("parser._recombine_skipped", "recombineSkipped", [("tokens", "Toks"), ("skipped_idxs", "NatList")], "Toks",
        self_type="Parser", locals_={"skipped_tokens": "Toks"}),
    PFn("parser._parse", "parseStep",
        [("l", "Toks"), ("i", "Nat"), ("len_l", "Nat"), ("info", "Info"), ("res", "Res"), ("ymd", "Ymd"),
         ("skipped_idxs", "NatList"), ("fuzzy", "Bool"), ("timestr", "Skip")], "StepRet", self_type="Parser", ctx=[CLS],
        returns=["l", "i", "res", "ymd", "skipped_idxs"], part="while-body", inlines=YMD_PROPS,
        locals_={"hour_offset": "Nat", "min_offset": "Nat"}),
    PFn("parser._parse", "parseLoop",
        [("l", "Toks"), ("i", "Nat"), ("len_l", "Nat"), ("info", "Info"), ("res", "Res"), ("ymd", "Ymd"),
         ("skipped_idxs", "NatList"), ("fuzzy", "Bool"), ("timestr", "Skip")], "StepRet", self_type="Parser", ctx=[CLS],
        returns=["l", "i", "res", "ymd", "skipped_idxs"], part="while", body_fn="parseStep"),
    PFn("parser._parse", "parse", [("timestr", "Str"), ("dayfirst", "OptBool"), ("yearfirst", "OptBool"), ("fuzzy", "Bool"),
                                   ("fuzzy_with_tokens", "Bool")], "ParseRet", self_type="Parser", ctx=[CLS],
        locals_={"dayfirst": "Bool", "yearfirst": "Bool", "skipped_idxs": "NatList"},
        loop=("Gen.P.parseLoop", ["l", "i", "len_l", "res", "ymd", "skipped_idxs", "fuzzy"], ["l", "i", "res", "ymd", "skipped_idxs"])),
    # `parser.parse` from the `_parse` call to the return (`default` given; **kwargs = the keyword parameters of `_parse`)
    PFn("parser.parse", "parseTail", [("timestr", "Str"), ("default", "DT"), ("ignoretz", "Bool"), ("tzinfos", "TzInfos"),
                                      ("dayfirst", "OptBool"), ("yearfirst", "OptBool"), ("fuzzy", "Bool"),
                                      ("fuzzy_with_tokens", "Bool")], "ResultA", self_type="Parser",
        ctx=[CLS, ("tznames", "List PM.Token")], part="from-_parse-call"),
]


def translate_module(src_root, relfile, specs):
    path = os.path.join(src_root, relfile)
    tree = ast.parse(open(path).read())
    parts, fps = [], {}
    for sp in specs:
        fn = find_function(tree, sp.qualname)
        tr = Tr(sp, tree)
        tr.spec.locals = {k: v for k, v in sp.locals.items() if v}
        try:
            parts.append(indent(tr.function(fn, relfile)))
        except Untranslatable as ex:
            raise Untranslatable("%s -> %s: %s" % (sp.qualname, sp.leanname, ex))
        # a PART of a function (the body of its loop) is reported under its own name, so that tools/coverage_map.py does not
        # count the whole function as translated
        fps["%s%s/%s" % (sp.qualname, "[%s]" % sp.part if sp.part else "", sp.leanname)] = \
            hashlib.sha256(ast.dump(fn).encode()).hexdigest()[:16]
        for q in sp.inlines:
            fps["%s/inlined" % q] = hashlib.sha256(ast.dump(find_function(tree, q)).encode()).hexdigest()[:16]
    return "\n".join(parts), fps


if __name__ == "__main__":
    import sys
    text, fps = translate_module(os.path.join(sys.argv[1] if len(sys.argv) > 1 else "/repo", "src", "dateutil"),
                                 "parser/_parser.py", PARSER_SPECS)
    print(text)
