"""tzhelplib.py — per-run differential validation of the HelpPy translator (harness/translate_tzhelp.py): the TRANSLATED
module-level helpers (Generated/TzHelpKernels.lean, op tzhelp.wall) and fixed-zone methods (Generated/TzFixedKernels.lean,
ops tzhelp.fixed / tzhelp.utc) are run by the driver on the same inputs as the implementation's functions."""
import datetime, pickle
import zonelib as Z


def impl_help_wall(z, w, other):
    """A0;A1;N0;N1;X0;X1 — aware dt (exists,ambiguous,resolve), naive dt + tz, dt attached to ANOTHER zone + tz (exists,ambiguous)"""
    from dateutil import tz
    parts = []
    for form in ("A", "N", "X"):
        for fold in (0, 1):
            naive = (Z.EPOCH + Z.TD(seconds=w)).replace(fold=fold)
            if form == "A":
                args = (naive.replace(tzinfo=z),)
            elif form == "N":
                args = (naive, z)
            else:
                args = (naive.replace(tzinfo=other), z)
            s = Z.guard(lambda: "%d" % tz.datetime_exists(*args)) + "," + Z.guard(lambda: "%d" % tz.datetime_ambiguous(*args))
            if form == "A":
                def res():
                    r = tz.resolve_imaginary(args[0])
                    assert r.tzinfo is z
                    return "%d/%d" % (Z.ts(r), r.fold)
                s += "," + Z.guard(res)
            parts.append(s)
    return ";".join(parts)


def validate_helpers(ctx, streams, max_points=80):
    from dateutil import tz
    other = tz.tzoffset("X", 19800)
    reqs, exp, meta = [], [], []
    for name, data in streams:
        z, _ = Z.impl_load(data)
        if z is None:
            continue
        _, wps = Z.probe_points(Z.Timeline(data))
        wps = wps or [0, Z.T0]
        if len(wps) > max_points:
            wps = ctx.subrng("tzhelp/" + name).sample(wps, max_points)
        reqs.append("tzhelp.wall %s %s" % (Z.hexs(data), Z.ilist(wps)))
        exp.append("ok " + " ".join(impl_help_wall(z, w, other) for w in wps)); meta.append((name, wps))
    got = ctx.driver(reqs)
    for q, e, g, (name, pts) in zip(reqs, exp, got, meta):
        ctx.count("corr:tzhelp.wall", len(pts))
        if e != g:
            for p, a, b in Z.diff_lines(pts, e, g)[:3]:
                ctx.mismatch("tzhelp.wall", {"zone": name, "w": p}, a, b)
        else:
            ctx.traces += len(pts)


def _others():
    from dateutil import tz
    return [tz.tzutc(), tz.tzoffset(None, 0), tz.tzoffset("A", 3600), tz.tzoffset("B", -3600),
            tz.tzoffset("C", 1), tz.tzlocal(), tz.tzfile("/usr/share/zoneinfo/Europe/Paris"),
            tz.tzrange("EST")]


def _tri(f):
    try:
        r = f()
    except Exception as ex:
        return "!" + Z.exc_name(ex)
    return "ni" if r is NotImplemented else ("t" if r else "f")


def _class_facts(cls):
    ne = True
    a = cls.__new__(cls) if cls.__name__ == "tzutc" else None
    return "%d%d%d" % (int(cls.__hash__ is None), int(cls.__reduce__ is object.__reduce__),
                       int(cls.__dict__.get("__ne__") is not None))


def fixed_line(z, ts, cls):
    """offset,dst,name,amb  fromutc walls  eq table  class facts — for a tzutc / tzoffset object"""
    d0 = Z.EPOCH
    us = lambda td: "%d" % ((td.days * 86400 + td.seconds))
    head = "%s,%s,%s,%d" % (us(z.utcoffset(d0)), us(z.dst(d0)), Z.name_hex(z.tzname(d0)), int(z.is_ambiguous(d0)))
    def fu(t):
        r = z.fromutc((Z.EPOCH + Z.TD(seconds=t)).replace(tzinfo=z))
        return "%d/%d" % (Z.ts(r), r.fold)
    eqs = ",".join(_tri(lambda o=o: type(z).__eq__(z, o)) for o in _others())
    return "ok %s %s %s %s" % (head, " ".join(Z.guard(lambda t=t: fu(t)) for t in ts), eqs, _class_facts(cls))


def validate_fixed(ctx):
    from dateutil import tz
    rng = ctx.subrng("tzhelp-fixed")
    ts = [0, 86399, -1, 1000000000, -2000000000, 2000000000]
    reqs, exp = ["tzhelp.utc " + Z.ilist(ts)], [fixed_line(tz.tzutc(), ts, tz.tzutc)]
    cases = [(None, "num", 0), ("UTC", "num", 0), ("A", "num", 3600), ("B", "td", -3600), ("XYZ", "num", 19800), ("", "td", 5400),
             ("Q", "num", 86399), ("Q", "td", -86399), ("sub", "num", 7), ("sub", "td", -59)]
    for _ in range(ctx.budget(20, 200)):
        cases.append((rng.choice([None, "N", "abc", "Z9"]), rng.choice(["num", "td"]), rng.randrange(-86399, 86400)))
    for name, kind, secs in cases:
        arg = secs if kind == "num" else datetime.timedelta(seconds=secs)
        try:
            z = tz.tzoffset.instance(name, arg)
            line = fixed_line(z, ts, tz.tzoffset)
        except Exception as ex:
            line = "err " + Z.exc_name(ex)
        reqs.append("tzhelp.fixed %s %s %d %s" % (Z.name_hex(name), kind, secs, Z.ilist(ts))); exp.append(line)
    got = ctx.driver(reqs)
    for q, e, g in zip(reqs, exp, got):
        ctx.traces += 1
        ctx.count("corr:" + q.split()[0])
        if e != g:
            ctx.mismatch(q.split()[0], q[:120], e[:300], g[:300])
