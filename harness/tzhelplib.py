"""tzhelplib.py — per-run differential validation of the HelpPy translator (harness/translate_tzhelp.py): the TRANSLATED
module-level helpers (Generated/TzHelpKernels.lean, op tzhelp.wall) and fixed-zone methods (Generated/TzFixedKernels.lean,
ops tzhelp.fixed / tzhelp.utc) are run by the driver on the same inputs as the implementation's functions."""
import datetime, pickle
import zonelib as Z


def impl_help_wall(z, w, other):
    """A0;A1;N0;N1;X0;X1 — aware dt (exists,ambiguous,resolve), naive dt + tz, dt attached to ANOTHER zone + tz (exists,ambiguous)"""
    from dateutil import tz
    parts = []
    for form in ("A", "N", "X"):
        for fold in (0, 1):
            naive = (Z.EPOCH + Z.TD(seconds=w)).replace(fold=fold)
            if form == "A":
                args = (naive.replace(tzinfo=z),)
            elif form == "N":
                args = (naive, z)
            else:
                args = (naive.replace(tzinfo=other), z)
            s = Z.guard(lambda: "%d" % tz.datetime_exists(*args)) + "," + Z.guard(lambda: "%d" % tz.datetime_ambiguous(*args))
            if form == "A":
                def res():
                    r = tz.resolve_imaginary(args[0])
                    assert r.tzinfo is z
                    return "%d/%d" % (Z.ts(r), r.fold)
                s += "," + Z.guard(res)
            parts.append(s)
    return ";".join(parts)


def validate_helpers(ctx, streams, max_points=80):
    from dateutil import tz
    other = tz.tzoffset("X", 19800)
    reqs, exp, meta = [], [], []
    for name, data in streams:
        z, _ = Z.impl_load(data)
        if z is None:
            continue
        _, wps = Z.probe_points(Z.Timeline(data))
        wps = wps or [0, Z.T0]
        if len(wps) > max_points:
            wps = ctx.subrng("tzhelp/" + name).sample(wps, max_points)
        reqs.append("tzhelp.wall %s %s" % (Z.hexs(data), Z.ilist(wps)))
        exp.append("ok " + " ".join(impl_help_wall(z, w, other) for w in wps)); meta.append((name, wps))
    got = ctx.driver(reqs)
    for q, e, g, (name, pts) in zip(reqs, exp, got, meta):
        ctx.count("corr:tzhelp.wall", len(pts))
        if e != g:
            for p, a, b in Z.diff_lines(pts, e, g)[:3]:
                ctx.mismatch("tzhelp.wall", {"zone": name, "w": p}, a, b)
        else:
            ctx.traces += len(pts)


def _others():
    from dateutil import tz
    return [tz.tzutc(), tz.tzoffset(None, 0), tz.tzoffset("A", 3600), tz.tzoffset("B", -3600),
            tz.tzoffset("C", 1), tz.tzlocal(), tz.tzfile("/usr/share/zoneinfo/Europe/Paris"),
            tz.tzrange("EST")]


def _tri(f):
    try:
        r = f()
    except Exception as ex:
        return "!" + Z.exc_name(ex)
    return "ni" if r is NotImplemented else ("t" if r else "f")


def _class_facts(cls):
    ne = True
    a = cls.__new__(cls) if cls.__name__ == "tzutc" else None
    return "%d%d%d" % (int(cls.__hash__ is None), int(cls.__reduce__ is object.__reduce__),
                       int(cls.__dict__.get("__ne__") is not None))


def fixed_line(z, ts, cls):
    """offset,dst,name,amb  fromutc walls  eq table  class facts — for a tzutc / tzoffset object"""
    d0 = Z.EPOCH
    us = lambda td: "%d" % ((td.days * 86400 + td.seconds))
    head = "%s,%s,%s,%d" % (us(z.utcoffset(d0)), us(z.dst(d0)), Z.name_hex(z.tzname(d0)), int(z.is_ambiguous(d0)))
    def fu(t):
        r = z.fromutc((Z.EPOCH + Z.TD(seconds=t)).replace(tzinfo=z))
        return "%d/%d" % (Z.ts(r), r.fold)
    eqs = ",".join(_tri(lambda o=o: type(z).__eq__(z, o)) for o in _others())
    return "ok %s %s %s %s" % (head, " ".join(Z.guard(lambda t=t: fu(t)) for t in ts), eqs, _class_facts(cls))


def validate_fixed(ctx):
    from dateutil import tz
    rng = ctx.subrng("tzhelp-fixed")
    ts = [0, 86399, -1, 1000000000, -2000000000, 2000000000]
    reqs, exp = ["tzhelp.utc " + Z.ilist(ts)], [fixed_line(tz.tzutc(), ts, tz.tzutc)]
    cases = [(None, "num", 0), ("UTC", "num", 0), ("A", "num", 3600), ("B", "td", -3600), ("XYZ", "num", 19800), ("", "td", 5400),
             ("Q", "num", 86399), ("Q", "td", -86399), ("sub", "num", 7), ("sub", "td", -59)]
    for _ in range(ctx.budget(20, 200)):
        cases.append((rng.choice([None, "N", "abc", "Z9"]), rng.choice(["num", "td"]), rng.randrange(-86399, 86400)))
    for name, kind, secs in cases:
        arg = secs if kind == "num" else datetime.timedelta(seconds=secs)
        try:
            z = tz.tzoffset.instance(name, arg)
            line = fixed_line(z, ts, tz.tzoffset)
        except Exception as ex:
            line = "err " + Z.exc_name(ex)
        reqs.append("tzhelp.fixed %s %s %d %s" % (Z.name_hex(name), kind, secs, Z.ilist(ts))); exp.append(line)
    got = ctx.driver(reqs)
    for q, e, g in zip(reqs, exp, got):
        ctx.traces += 1
        ctx.count("corr:" + q.split()[0])
        if e != g:
            ctx.mismatch(q.split()[0], q[:120], e[:300], g[:300])


# ------------------------------------------------------------------ load paths (harness/translate_load.py, ops tzload.*)
def _obj_line(z):
    return "%s %s" % (Z.hexs(z._filename), Z.impl_dump(z) if getattr(z, "_trans_list", None) is not None else "-")


def validate_load(ctx, streams):
    """tz.tzfile.__init__ (path / open stream with a name / BytesIO + filename= / None) and ZoneInfoFile.__init__ / get over archives
    the harness builds (regular members, duplicates, hard and symbolic links, METADATA, a directory member, links that override a
    file of the same name), against the TRANSLATED load paths"""
    import io, os, tarfile, tempfile, shutil, warnings
    from dateutil import tz
    from dateutil.zoneinfo import ZoneInfoFile
    rng = ctx.subrng("tzload")
    streams = [(n, d) for n, d in streams if Z.impl_load(d)[0] is not None and len(d) < 6000]
    pick = streams if len(streams) <= 24 else rng.sample(streams, 24)
    tmp = tempfile.mkdtemp(prefix="verif-load-")
    reqs, exp = [], []
    try:
        for k, (name, data) in enumerate(pick):
            path = os.path.join(tmp, "zone%d" % k)
            open(path, "wb").write(data)
            hp, hd = Z.hexs(path), Z.hexs(data)
            for fn in (None, "Label/Given"):
                hf = "-" if fn is None else Z.hexs(fn)
                reqs.append("tzload.file %s %s path - %s" % (hp, hd, hf)); exp.append("ok " + _obj_line(tz.tzfile(path, fn)))
                with open(path, "rb") as f:
                    reqs.append("tzload.file %s %s stream %s %s" % (hp, hd, hp, hf)); exp.append("ok " + _obj_line(tz.tzfile(f, fn)))
            reqs.append("tzload.file %s %s stream - %s" % (hp, hd, Z.hexs("B"))); exp.append("ok " + _obj_line(tz.tzfile(io.BytesIO(data), "B")))
            reqs.append("tzload.file %s %s none - %s" % (hp, hd, Z.hexs("N"))); exp.append("ok " + _obj_line(tz.tzfile(None, "N")))
        # archives
        for a in range(ctx.budget(6, 40)):
            zs = rng.sample(pick, min(len(pick), rng.choice((1, 2, 3, 4))))
            members, wire = [], []
            names = []
            for j, (n, d) in enumerate(zs):
                nm = "Area%d/Zone%d" % (a, j)
                members.append(("f", nm, d)); names.append(nm)
            if rng.random() < 0.5:                                        # a duplicate regular member: the last one wins
                members.append(("f", names[0], zs[-1][1]))
            for j in range(rng.choice((0, 1, 2, 3))):
                members.append(("l", "Link%d" % j, rng.choice(names), rng.random() < 0.5))
            if rng.random() < 0.4:
                members.append(("l", names[-1], names[0], True))         # a link with the name of a regular member overrides it
            if rng.random() < 0.5:
                members.append(("o", "Area%d" % a))
            if rng.random() < 0.6:
                members.insert(rng.randrange(len(members) + 1), ("f", "METADATA", b'{"tzversion": "2099z"}'))
            buf = io.BytesIO()
            with tarfile.open(fileobj=buf, mode="w") as tf:
                for m in members:
                    ti = tarfile.TarInfo(m[1])
                    if m[0] == "f":
                        ti.size = len(m[2]); tf.addfile(ti, io.BytesIO(m[2])); wire.append("f:%s:%s" % (Z.hexs(m[1]), Z.hexs(m[2])))
                    elif m[0] == "l":
                        ti.type = tarfile.SYMTYPE if m[3] else tarfile.LNKTYPE; ti.linkname = m[2]; tf.addfile(ti)
                        wire.append("l:%s:%s:%d" % (Z.hexs(m[1]), Z.hexs(m[2]), int(m[3])))
                    else:
                        ti.type = tarfile.DIRTYPE; tf.addfile(ti); wire.append("o:%s" % Z.hexs(m[1]))
            buf.seek(0)
            queries = sorted({m[1] for m in members}) + ["No/Such"]
            try:
                with warnings.catch_warnings():
                    warnings.simplefilter("ignore")
                    zif = ZoneInfoFile(buf)
                parts = []
                for q in queries:
                    o = zif.get(q)
                    parts.append("-" if o is None else "%s@%s" % (Z.hexs(o._filename), Z.impl_dump(o)))
                meta = "-" if zif.metadata is None else Z.hexs('{"tzversion": "2099z"}')
                line = "ok " + " | ".join(parts) + " meta=" + meta
            except Exception as ex:
                line = "err " + Z.exc_name(ex)
            reqs.append("tzload.archive %s %s" % (";".join(wire), ",".join(Z.hexs(q) for q in queries))); exp.append(line)
    finally:
        shutil.rmtree(tmp, ignore_errors=True)
    got = ctx.driver(reqs)
    for q, e, g in zip(reqs, exp, got):
        ctx.traces += 1
        ctx.count("corr:" + q.split()[0])
        if e != g:
            ctx.mismatch(q.split()[0], q[:160], e[:300], g[:300])


def validate_local(ctx):
    """tzlocal.__init__ / __eq__ (Generated/TzFixedKernels.lean, op tzhelp.local) under TZ settings applied with tzset: the `time` module's
    values are the input of the translated constructor"""
    import time, os
    from dateutil import tz
    if not hasattr(time, "tzset"):
        ctx.count("tzhelp.local_skipped_no_tzset"); return
    reqs, exp = [], []
    old = os.environ.get("TZ")
    try:
        for env in ("UTC", "GMT0", "EST5EDT", "XYZ3", "AAA-5:30", "CET-1CEST,M3.5.0,M10.5.0/3", "NZST-12NZDT,M9.5.0,M4.1.0/3", "QQQ4QQD3"):
            os.environ["TZ"] = env; time.tzset()
            z = tz.tzlocal()
            sec = lambda td: td.days * 86400 + td.seconds
            so, do = sec(z._std_offset), sec(z._dst_offset)
            n0 = time.tzname[0]
            others = [tz.tzutc(), tz.tzoffset(n0, so), tz.tzoffset("Q", so), tz.tzoffset(n0, so + 1), tz.tzlocal()]
            os.environ["TZ"] = "ZZZ%d:%02d" % ((-(so + 60)) // 3600, ((-(so + 60)) % 3600) // 60) if (so + 60) % 60 == 0 and -86400 < so + 60 < 86400 else env
            time.tzset()
            shifted = tz.tzlocal()
            if sec(shifted._std_offset) != so + 60 or shifted._hasdst:
                shifted = None
            os.environ["TZ"] = env; time.tzset()
            row = [_tri(lambda o=o: type(z).__eq__(z, o)) for o in others]
            row.append(_tri(lambda: type(z).__eq__(z, shifted)) if shifted is not None and do == sec(shifted._dst_offset) else None)
            row.append(_tri(lambda: type(z).__eq__(z, tz.tzfile("/usr/share/zoneinfo/Europe/Paris"))))
            line = "ok %d,%d,%d,%d,%s,%s %s %s" % (so, do, sec(z._dst_saved), int(z._hasdst), Z.hexs(z._tznames[0]), Z.hexs(z._tznames[1]),
                                                ",".join("?" if r is None else r for r in row), _class_facts(tz.tzlocal))
            reqs.append("tzhelp.local %d %d %d %s %s" % (time.timezone, time.altzone, time.daylight, Z.hexs(time.tzname[0]), Z.hexs(time.tzname[1])))
            exp.append(line)
    finally:
        if old is None: os.environ.pop("TZ", None)
        else: os.environ["TZ"] = old
        time.tzset()
    got = ctx.driver(reqs)
    for q, e, g in zip(reqs, exp, got):
        ctx.traces += 1
        ctx.count("corr:tzhelp.local")
        ge = g.split(" ")
        ee = e.split(" ")
        if len(ge) == len(ee) == 4:                        # a "?" in the expected eq row: that comparison could not be set up
            gr, er = ge[2].split(","), ee[2].split(",")
            if len(gr) == len(er):
                ge[2] = ",".join("?" if b == "?" else a for a, b in zip(gr, er))
        if ee != ge:
            ctx.mismatch("tzhelp.local", q[:120], e[:300], g[:300])
