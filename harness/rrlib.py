"""
rrlib.py — shared helpers of the C10/C11/C12 checks: real rrule / rruleset objects over an
integer time axis (seconds since BASE), the query vocabulary of Model/Queries.lean with its wire
form, the query executed on the implementation, and the same query in plain Python list
semantics (the oracle).
"""
import datetime, itertools

BASE = datetime.datetime(2020, 1, 1)


def to_dt(i):
    return BASE + datetime.timedelta(seconds=int(i))


def to_int(dt):
    d = dt - BASE
    return d.days * 86400 + d.seconds


def ints(dts):
    return [to_int(x) for x in dts]


# ---------------------------------------------------------------- rules

def daily(n, cache, start=0):
    """the canonical rule used for schedules: src = [start, start+86400, ...] (n items)"""
    from dateutil import rrule as R
    return R.rrule(R.DAILY, dtstart=to_dt(start), count=n, cache=cache)


def stepped(n, cache, step=1, start=0):
    """n items `start + k*step` seconds"""
    from dateutil import rrule as R
    return R.rrule(R.SECONDLY, dtstart=to_dt(start), interval=step, count=n, cache=cache)


def random_rule_params(rng, maxn=14):
    from dateutil import rrule as R
    freq = rng.choice([R.DAILY, R.HOURLY, R.WEEKLY, R.MINUTELY, R.SECONDLY, R.DAILY, R.HOURLY])
    p = dict(freq=freq, dtstart=to_dt(rng.choice([0, 0, 3600, 86400, 90000, 5, 172800])),
             interval=rng.choice([1, 1, 2, 3, 7]), count=rng.choice([0, 1, 2, 3, 5, 9, 10, 11, 12, maxn]))
    if rng.random() < 0.25 and freq in (R.DAILY, R.WEEKLY, R.HOURLY):      # sub-hourly + BYDAY steps through every second of the skipped days
        p["byweekday"] = tuple(sorted(rng.sample(range(7), rng.randint(1, 3))))
        if p["interval"] == 7:
            p["interval"] = 2          # DAILY every 7 days + a BYDAY that excludes the start's weekday runs empty to year 9999
    return p


def calendar_rule_params(rng):
    """rules with several occurrences per period whose sequence crosses a YEAR boundary after a few occurrences (dtstart late in
    2019, i.e. negative instants): the per-iteration year/month masks of rrule._iter are rebuilt in the middle of the sequence, so
    two live iterations over ONE rule object that are not in lockstep only agree if each has its own masks"""
    from dateutil import rrule as R
    kind = rng.randrange(6)
    day = 86400
    if kind == 0:
        return dict(freq=R.DAILY, dtstart=to_dt(-day * rng.randint(1, 6) + rng.choice([0, 9 * 3600])), interval=rng.choice([1, 1, 2]), count=rng.randint(6, 16))
    if kind == 1:
        return dict(freq=R.WEEKLY, byweekday=tuple(sorted(rng.sample(range(7), 2))), dtstart=to_dt(-day * rng.randint(3, 12) + 9 * 3600), count=rng.randint(6, 12))
    if kind == 2:
        return dict(freq=R.MONTHLY, bymonthday=rng.choice([(1, 15), (5, 20, 28), (-1, 10)]), dtstart=datetime.datetime(2019, rng.choice([10, 11, 12]), 1, 9, 0), count=rng.randint(6, 10))
    if kind == 3:
        return dict(freq=R.YEARLY, bymonth=rng.choice([(3, 9), (1, 6, 12), (2, 11)]), bymonthday=1, dtstart=datetime.datetime(2019, rng.choice([2, 3, 9]), 1, 9, 0), count=rng.randint(5, 8))
    if kind == 4:
        return dict(freq=R.HOURLY, dtstart=to_dt(-3600 * rng.choice([6, 12, 20, 30])), interval=rng.choice([6, 8, 12]), count=rng.randint(8, 14))
    return dict(freq=R.DAILY, byweekday=tuple(sorted(rng.sample(range(7), 3))), dtstart=to_dt(-day * rng.randint(2, 9)), count=rng.randint(6, 12))


def maxyear_rule_params(rng):
    """COUNT-limited rules that run into datetime.MAXYEAR before COUNT occurrences exist: the sequence is SHORTER than COUNT"""
    from dateutil import rrule as R
    D = datetime.datetime
    return rng.choice([
        dict(freq=R.YEARLY, count=rng.randint(11, 25), dtstart=D(9990 + rng.randint(0, 6), 1, 1)),
        dict(freq=R.MONTHLY, count=rng.randint(20, 30), dtstart=D(9998, rng.choice([6, 9]), 15, 12, 0)),
        dict(freq=R.WEEKLY, interval=2, count=40, dtstart=D(9999, rng.choice([1, 6]), 4)),
        dict(freq=R.DAILY, count=rng.randint(32, 50), dtstart=D(9999, 12, rng.randint(1, 20), 9, 0)),
        dict(freq=R.HOURLY, interval=rng.choice([1, 2]), count=100, dtstart=D(9999, 12, 30)),
        dict(freq=R.YEARLY, bymonth=(3, 9), bymonthday=1, count=30, dtstart=D(9992, 3, 1, 9, 0)),
    ])


def params_record(p):
    """JSON form of constructor keywords (datetimes as ISO strings, tuples as lists)"""
    q = {}
    for k, v in p.items():
        q[k] = v.isoformat() if hasattr(v, "isoformat") else (list(v) if isinstance(v, tuple) else v)
    return q


def params_rebuild(rec):
    kw = {}
    for k, v in rec.items():
        kw[k] = datetime.datetime.fromisoformat(v) if k in ("dtstart", "until") else (tuple(v) if isinstance(v, list) else v)
    return kw


def q_parse(text):
    """inverse of q_wire"""
    f = text.split(":")
    conv = lambda x: None if x == "-" else int(x)
    k = f[0]
    if k in ("all", "cnt"):
        return (k,)
    if k in ("bef", "aft"):
        return (k, int(f[1]), f[2] == "1")
    if k == "xaf":
        return (k, int(f[1]), conv(f[2]), f[3] == "1")
    if k == "btw":
        return (k, int(f[1]), int(f[2]), f[3] == "1")
    if k == "sl":
        return (k, conv(f[1]), conv(f[2]), conv(f[3]))
    return (k, int(f[1]))


def make_rule(params, cache):
    from dateutil import rrule as R
    import warnings
    with warnings.catch_warnings():
        warnings.simplefilter("ignore")            # count together with until is deprecated, still supported
        return R.rrule(cache=cache, **params)


def until_variants(rng, p, k=3):
    """UNTIL-bounded (and COUNT+UNTIL) versions of the count-bounded parameters p:
    [(params, special instants)] with until at an occurrence, one second off, between occurrences, at / before dtstart"""
    L = ints(list(make_rule(p, False)))
    d0 = to_int(p["dtstart"])
    cands = [d0, d0 - 1, d0 + 1]
    for x in ([L[-1], L[len(L) // 2], L[0]] if L else []):
        cands += [x, x + 1, x - 1]
    if len(L) >= 2:
        cands.append((L[-1] + L[-2]) // 2)
    out = []
    for u in rng.sample(cands, min(k, len(cands))):
        q = dict(p)
        q["until"] = to_dt(u)
        if rng.random() < 0.6:
            del q["count"]
            if not L or u > L[-1]:
                q["until"] = to_dt(min(u, (L[-1] if L else d0) + 1))     # keep the rule finite and short
                u = to_int(q["until"])
        Lq = ints(list(make_rule(q, False)))
        special = [u, u - 1, u + 1, d0, d0 - 1] + ([Lq[-1]] if Lq else [])
        out.append((q, special))
    return out


# ---------------------------------------------------------------- queries
# ('all',) ('take',k) ('idx',i) ('sl',a,b,c) ('in',x) ('cnt',) ('bef',t,inc) ('aft',t,inc)
# ('xaf',t,n,inc) ('btw',a,b,inc)

def oi(x):
    return "-" if x is None else str(int(x))


def q_wire(q):
    k = q[0]
    if k in ("all", "cnt"):
        return k
    if k in ("bef", "aft"):
        return "%s:%d:%d" % (k, q[1], int(q[2]))
    if k == "xaf":
        return "xaf:%d:%s:%d" % (q[1], oi(q[2]), int(q[3]))
    if k == "btw":
        return "btw:%d:%d:%d" % (q[1], q[2], int(q[3]))
    if k == "sl":
        return "sl:%s:%s:%s" % (oi(q[1]), oi(q[2]), oi(q[3]))
    return "%s:%d" % (k, q[1])


def show_val(v):
    return "ok v " + ("-" if v is None else str(to_int(v)))


def show_list(l):
    return "ok l [" + ",".join(str(to_int(x)) for x in l) + "]"


def canon_exc(ex):
    return "err " + type(ex).__name__


def impl_query(rule, q):
    """the query on the real object, canonical string"""
    k = q[0]
    try:
        if k == "all":
            return show_list(list(rule))
        if k == "take":
            return show_list(list(itertools.islice(rule, q[1])))
        if k == "idx":
            return show_val(rule[q[1]])
        if k == "sl":
            return show_list(rule[q[1]:q[2]:q[3]])
        if k == "in":
            return "ok b %d" % int(to_dt(q[1]) in rule)
        if k == "cnt":
            c = rule.count()
            return "ok v -" if c is None else "ok n %d" % c        # count() returning None is an observation, not a harness error
        if k == "bef":
            return show_val(rule.before(to_dt(q[1]), inc=q[2]))
        if k == "aft":
            return show_val(rule.after(to_dt(q[1]), inc=q[2]))
        if k == "xaf":
            return show_list(list(rule.xafter(to_dt(q[1]), count=q[2], inc=q[3])))
        if k == "btw":
            return show_list(rule.between(to_dt(q[1]), to_dt(q[2]), inc=q[3]))
    except Exception as ex:           # the exception kind is part of the observation
        return canon_exc(ex)
    raise ValueError(q)


def py_query(L, q):
    """the same query in plain Python list semantics on the int list L (the oracle)"""
    k = q[0]

    def sl(l):
        return "ok l [" + ",".join(str(x) for x in l) + "]"

    def sv(v):
        return "ok v " + ("-" if v is None else str(v))
    try:
        if k == "all":
            return sl(L)
        if k == "take":
            return sl(L[:q[1]])
        if k == "idx":
            return sv(L[q[1]])
        if k == "sl":
            return sl(L[q[1]:q[2]:q[3]])
        if k == "in":
            return "ok b %d" % int(q[1] in L)
        if k == "cnt":
            return "ok n %d" % len(L)
        if k == "bef":
            c = [x for x in L if (x <= q[1] if q[2] else x < q[1])]
            return sv(c[-1] if c else None)
        if k == "aft":
            c = [x for x in L if (x >= q[1] if q[2] else x > q[1])]
            return sv(c[0] if c else None)
        if k == "xaf":
            c = [x for x in L if (x >= q[1] if q[3] else x > q[1])]
            return sl(c if q[2] is None else c[:max(q[2], 0)])
        if k == "btw":
            return sl([x for x in L if ((q[1] <= x <= q[2]) if q[3] else (q[1] < x < q[2]))])
    except Exception as ex:
        return canon_exc(ex)
    raise ValueError(q)


def instants_near(L, rng, k=1):
    """query arguments: elements of L, neighbours one second off, far before and after"""
    pool = [-10 ** 7, 10 ** 9]
    for x in L:
        pool += [x, x - 1, x + 1]
    if not L:
        pool += [0, 1, -1]
    return [rng.choice(pool) for _ in range(k)]


SMALL = [None] + list(range(-7, 8))


def all_slice_triples():
    return [("sl", a, b, c) for a in SMALL for b in SMALL for c in SMALL]


def random_query(rng, L):
    k = rng.choice(["idx", "sl", "in", "cnt", "bef", "aft", "xaf", "btw", "all", "take", "idx", "sl", "btw"])
    n = len(L)
    t = instants_near(L, rng, 2)
    inc = rng.random() < 0.5
    if k == "idx":
        return ("idx", rng.randint(-n - 2, n + 2))
    if k == "sl":
        f = lambda: rng.choice([None, None] + list(range(-n - 2, n + 3)))
        return ("sl", f(), f(), rng.choice([None, None, 1, 1, 2, 3, -1, -2, 0, 5]))
    if k == "in":
        return ("in", t[0])
    if k == "cnt":
        return ("cnt",)
    if k == "bef":
        return ("bef", t[0], inc)
    if k == "aft":
        return ("aft", t[0], inc)
    if k == "xaf":
        return ("xaf", t[0], rng.choice([None, None, 0, 1, 2, 3, n, n + 1, -1]), inc)
    if k == "btw":
        a, b = t
        if rng.random() < 0.8 and a > b:
            a, b = b, a
        return ("btw", a, b, inc)
    if k == "take":
        return ("take", rng.randint(0, n + 2))
    return ("all",)


def ilist(xs):
    return "[" + ",".join(str(int(x)) for x in xs) + "]"
