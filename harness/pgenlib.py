"""pgenlib.py — per-run differential validation of the PPy translator (harness/translate_parser.py): the functions
re-translated from parser/_parser.py into Generated/ParserOps.lean (`Gen.P.*`, driver ops `pgen.*` of Ops/ParserGen.lean)
against the METHODS of the implementation, called directly on the same arguments.  A difference is a correspondence
mismatch (op `pgen.*`), i.e. the translator (or a primitive of Model/ParserPy.lean) does not mean what the code does."""
import decimal
import vlib
from props import _parser_lib as L

LABELS = [None, None, None, None, "Y", "M", "D"]
EDGE = [0, 1, 2, 11, 12, 13, 28, 29, 30, 31, 32, 59, 60, 99, 100, 101, 999, 1000, 2003, 9999, 10000]
DIGITS = "0123456789"
ODD_DIGITS = ["٣", "३", "５", "²", "①"]      # decimal digits of other scripts; digits that are not decimal


def _dec(num, scale):
    digits = tuple(int(c) for c in str(num))
    return decimal.Decimal((0, digits, -scale))


def _lab(l):
    return "N" if l is None else l


def _on(x):
    return "-" if x is None else str(x)


def _state(y):
    return "%s|%d|%s|%s|%s" % (",".join(str(v) for v in y), int(bool(y.century_specified)), _on(y.dstridx), _on(y.mstridx),
                               _on(y.ystridx))


def gen_value(rng):
    r = rng.random()
    if r < 0.6:
        return rng.choice(EDGE)
    if r < 0.9:
        return rng.randrange(0, 130)
    return rng.randrange(0, 10 ** rng.randrange(1, 8))


def gen_token(rng):
    r = rng.random()
    if r < 0.55:
        return str(gen_value(rng)).zfill(rng.choice([0, 0, 2, 3, 4]))
    if r < 0.7:
        return "".join(rng.choice(DIGITS + "".join(ODD_DIGITS[:3])) for _ in range(rng.randrange(1, 6)))
    if r < 0.8:
        return "".join(rng.choice(DIGITS + "".join(ODD_DIGITS)) for _ in range(rng.randrange(1, 5)))
    # the other shapes a lexer token can have (`int(tok)` ↦ PM.pyInt is exact on lexer tokens and their slices: a sign or
    # a blank never shares a token with a digit): empty, a word, digits with dots, a single separator
    return rng.choice(["", "ab", "1.5", "1.2.3", "12.", ".", "-", "+", " ", "١٢٣٤", "0" * 5000 + "7"][: 10 if r < 0.995 else 11])


def gen_decimal(rng):
    r = rng.random()
    if r < 0.5:
        return gen_value(rng), 0
    if r < 0.8:
        return gen_value(rng) * 10 + rng.choice([0, 0, 1, 5, 9]), 1
    sc = rng.randrange(0, 6)
    return rng.randrange(0, 4000 * 10 ** sc + 1), sc


def gen_script(rng):
    """(wire steps, python thunks)"""
    steps = []
    for _ in range(rng.choice([0, 1, 1, 2, 2, 2, 3, 3, 3, 3, 4])):
        k = rng.random()
        lab = rng.choice(LABELS)
        if k < 0.45:
            steps.append(("t", gen_token(rng), lab))
        elif k < 0.75:
            steps.append(("d",) + gen_decimal(rng) + (lab,))
        else:
            steps.append(("n", gen_value(rng), lab))
    for _ in range(rng.randrange(0, 3)):
        steps.append(("c",) + gen_decimal(rng))
    flags = [(a, b) for a in (0, 1) for b in (0, 1)]
    rng.shuffle(flags)
    for a, b in flags[: rng.choice([1, 2, 4])]:
        steps.append(("r", a, b))
    if rng.random() < 0.35:
        keys = [k for k in "ymd" if rng.random() < 0.6]
        rng.shuffle(keys)
        steps.append(("s", "".join(keys), [rng.randrange(0, 4) for _ in keys]))
    return steps


def wire(step):
    k = step[0]
    if k == "t": return "t:%s:%s:%s" % (L.cps(step[1]), L.classes(step[1]), _lab(step[2]))
    if k == "d": return "d:%d:%d:%s" % (step[1], step[2], _lab(step[3]))
    if k == "n": return "n:%d:%s" % (step[1], _lab(step[2]))
    if k == "c": return "c:%d:%d" % (step[1], step[2])
    if k == "r": return "r:%d%d" % (step[1], step[2])
    return "s:%s:%s" % (step[1], ",".join(str(i) for i in step[2]))


def impl_script(steps):
    from dateutil.parser import _parser as P
    y = P._ymd()
    out = []
    for st in steps:
        k = st[0]
        try:
            if k == "t":
                y.append(st[1], st[2]); out.append(_state(y))
            elif k == "d":
                y.append(_dec(st[1], st[2]), st[3]); out.append(_state(y))
            elif k == "n":
                y.append(st[1], st[2]); out.append(_state(y))
            elif k == "c":
                out.append("%d" % bool(y.could_be_day(_dec(st[1], st[2]))))
            elif k == "r":
                out.append(",".join(_on(v) for v in y.resolve_ymd(bool(st[1]), bool(st[2]))))
            else:
                out.append(",".join(_on(v) for v in y._resolve_from_stridxs(dict(zip(st[1], st[2])))))
        except Exception as ex:                                     # noqa: BLE001 — every exception kind is compared
            out.append("!" + vlib.exc_kind(ex))
            break
    return "ok " + " ".join(out)


def validate_ymd(ctx):
    rng = ctx.subrng("pgen.ymd")
    n = ctx.budget(2500, 12000)
    scripts = [gen_script(rng) for _ in range(n)]
    # every shape of resolve_ymd once per run, deterministically: 1..3 members × month-string position × flags × edge values
    for vals in ([5], [45], [5, 20], [45, 5], [5, 45], [12, 12], [13, 12], [12, 13], [5, 6, 7], [45, 6, 7], [5, 45, 7],
                 [5, 6, 45], [13, 6, 7], [5, 13, 7], [12, 12, 12], [31, 12, 31], [32, 12, 31], [1, 2, 3, 4]):
        for mpos in [None] + list(range(len(vals))):
            st = [("n", v, "M" if i == mpos else None) for i, v in enumerate(vals)]
            scripts.append(st + [("r", a, b) for a in (0, 1) for b in (0, 1)])
    reqs = ["pgen.ymd " + ";".join(wire(s) for s in st) for st in scripts]
    got = ctx.driver(reqs)
    for st, req, g in zip(scripts, reqs, got):
        want = impl_script(st)
        ctx.traces += 1
        if g != want:
            ctx.mismatch("pgen.ymd", req[:600], want[:300], g[:300])
    ctx.count("pgen_ymd_scripts", len(scripts))


def validate(ctx):
    """run every `pgen.*` validation (called from the correspondence of C14)"""
    validate_ymd(ctx)
