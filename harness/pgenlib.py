"""pgenlib.py — per-run differential validation of the PPy translator (harness/translate_parser.py): the functions
re-translated from parser/_parser.py into Generated/ParserOps.lean (`Gen.P.*`, driver ops `pgen.*` of Ops/ParserGen.lean)
against the METHODS of the implementation, called directly on the same arguments.  A difference is a correspondence
mismatch (op `pgen.*`), i.e. the translator (or a primitive of Model/ParserPy.lean) does not mean what the code does."""
import decimal
import vlib
from props import _parser_lib as L

LABELS = [None, None, None, None, "Y", "M", "D"]
EDGE = [0, 1, 2, 11, 12, 13, 28, 29, 30, 31, 32, 59, 60, 99, 100, 101, 999, 1000, 2003, 9999, 10000]
DIGITS = "0123456789"
ODD_DIGITS = ["٣", "३", "５", "²", "①"]      # decimal digits of other scripts; digits that are not decimal


def _dec(num, scale):
    digits = tuple(int(c) for c in str(num))
    return decimal.Decimal((0, digits, -scale))


def _lab(l):
    return "N" if l is None else l


def _on(x):
    return "-" if x is None else str(x)


def _state(y):
    return "%s|%d|%s|%s|%s" % (",".join(str(v) for v in y), int(bool(y.century_specified)), _on(y.dstridx), _on(y.mstridx),
                               _on(y.ystridx))


def gen_value(rng):
    r = rng.random()
    if r < 0.6:
        return rng.choice(EDGE)
    if r < 0.9:
        return rng.randrange(0, 130)
    return rng.randrange(0, 10 ** rng.randrange(1, 8))


def gen_token(rng):
    r = rng.random()
    if r < 0.55:
        return str(gen_value(rng)).zfill(rng.choice([0, 0, 2, 3, 4]))
    if r < 0.7:
        return "".join(rng.choice(DIGITS + "".join(ODD_DIGITS[:3])) for _ in range(rng.randrange(1, 6)))
    if r < 0.8:
        return "".join(rng.choice(DIGITS + "".join(ODD_DIGITS)) for _ in range(rng.randrange(1, 5)))
    # the other shapes a lexer token can have (`int(tok)` ↦ PM.pyInt is exact on lexer tokens and their slices: a sign or
    # a blank never shares a token with a digit): empty, a word, digits with dots, a single separator
    return rng.choice(["", "ab", "1.5", "1.2.3", "12.", ".", "-", "+", " ", "١٢٣٤", "0" * 5000 + "7"][: 10 if r < 0.995 else 11])


def gen_decimal(rng):
    r = rng.random()
    if r < 0.5:
        return gen_value(rng), 0
    if r < 0.8:
        return gen_value(rng) * 10 + rng.choice([0, 0, 1, 5, 9]), 1
    sc = rng.randrange(0, 6)
    return rng.randrange(0, 4000 * 10 ** sc + 1), sc


def gen_script(rng):
    """(wire steps, python thunks)"""
    steps = []
    for _ in range(rng.choice([0, 1, 1, 2, 2, 2, 3, 3, 3, 3, 4])):
        k = rng.random()
        lab = rng.choice(LABELS)
        if k < 0.45:
            steps.append(("t", gen_token(rng), lab))
        elif k < 0.75:
            steps.append(("d",) + gen_decimal(rng) + (lab,))
        else:
            steps.append(("n", gen_value(rng), lab))
    for _ in range(rng.randrange(0, 3)):
        steps.append(("c",) + gen_decimal(rng))
    flags = [(a, b) for a in (0, 1) for b in (0, 1)]
    rng.shuffle(flags)
    for a, b in flags[: rng.choice([1, 2, 4])]:
        steps.append(("r", a, b))
    if rng.random() < 0.35:
        keys = [k for k in "ymd" if rng.random() < 0.6]
        rng.shuffle(keys)
        steps.append(("s", "".join(keys), [rng.randrange(0, 4) for _ in keys]))
    return steps


def wire(step):
    k = step[0]
    if k == "t": return "t:%s:%s:%s" % (L.cps(step[1]), L.classes(step[1]), _lab(step[2]))
    if k == "d": return "d:%d:%d:%s" % (step[1], step[2], _lab(step[3]))
    if k == "n": return "n:%d:%s" % (step[1], _lab(step[2]))
    if k == "c": return "c:%d:%d" % (step[1], step[2])
    if k == "r": return "r:%d%d" % (step[1], step[2])
    return "s:%s:%s" % (step[1], ",".join(str(i) for i in step[2]))


def impl_script(steps):
    from dateutil.parser import _parser as P
    y = P._ymd()
    out = []
    for st in steps:
        k = st[0]
        try:
            if k == "t":
                y.append(st[1], st[2]); out.append(_state(y))
            elif k == "d":
                y.append(_dec(st[1], st[2]), st[3]); out.append(_state(y))
            elif k == "n":
                y.append(st[1], st[2]); out.append(_state(y))
            elif k == "c":
                out.append("%d" % bool(y.could_be_day(_dec(st[1], st[2]))))
            elif k == "r":
                out.append(",".join(_on(v) for v in y.resolve_ymd(bool(st[1]), bool(st[2]))))
            else:
                out.append(",".join(_on(v) for v in y._resolve_from_stridxs(dict(zip(st[1], st[2])))))
        except Exception as ex:                                     # noqa: BLE001 — every exception kind is compared
            out.append("!" + vlib.exc_kind(ex))
            break
    return "ok " + " ".join(out)


def validate_ymd(ctx):
    rng = ctx.subrng("pgen.ymd")
    n = ctx.budget(2500, 12000)
    scripts = [gen_script(rng) for _ in range(n)]
    # every shape of resolve_ymd once per run, deterministically: 1..3 members × month-string position × flags × edge values
    for vals in ([5], [45], [5, 20], [45, 5], [5, 45], [12, 12], [13, 12], [12, 13], [5, 6, 7], [45, 6, 7], [5, 45, 7],
                 [5, 6, 45], [13, 6, 7], [5, 13, 7], [12, 12, 12], [31, 12, 31], [32, 12, 31], [1, 2, 3, 4]):
        for mpos in [None] + list(range(len(vals))):
            st = [("n", v, "M" if i == mpos else None) for i, v in enumerate(vals)]
            scripts.append(st + [("r", a, b) for a in (0, 1) for b in (0, 1)])
    reqs = ["pgen.ymd " + ";".join(wire(s) for s in st) for st in scripts]
    got = ctx.driver(reqs)
    for st, req, g in zip(scripts, reqs, got):
        want = impl_script(st)
        ctx.traces += 1
        if g != want:
            ctx.mismatch("pgen.ymd", req[:600], want[:300], g[:300])
    ctx.count("pgen_ymd_scripts", len(scripts))


# ------------------------------------------------------------------ parserinfo / small parser methods
WORDS = ["h", "m", "s", "hour", "hours", "minute", "min", "sec", "second", "am", "pm", "a", "p", "AM", "Pm", "of", "at", "on",
         "and", "ad", "st", "nd", "rd", "th", "T", "Z", "z", "UTC", "GMT", "utc", "gmt", "Jan", "jan", "JANUARY", "Sept", "sep",
         "may", "Mon", "monday", "TUE", "Sun", "BRST", "EST", "MSK", "msk", "EKT", "ZERO", "CET", "ch", "chas", "utra",
         "vechera", "ot", "goda", "Pn", "yan", "\u212a", "K", "k", "İ", "ǅ", "ß", "ab", "ABCDE", "ABCDEF", "AbC", "ÀB", "",
         " ", ".", ",", "-", "/", "+", "(", ")", "12", "3"]


def _infos():
    from dateutil.parser import parserinfo
    out = [(parserinfo(), False), (parserinfo(dayfirst=True), False)]
    for _, klass in L.custom_infos():
        out.append((klass(), True))
    return out


def _iw(info, custom):
    return "%s %d %d" % (L.info_wire(info, custom), info._year, info._century)


def _word(rng, info):
    r = rng.random()
    if r < 0.5:
        tbl = rng.choice([info._jump, info._weekdays, info._months, info._hms, info._ampm, info._utczone, info._pertain,
                          info.TZOFFSET])
        ks = sorted(tbl)
        if ks:
            w = rng.choice(ks)
            return rng.choice([w, w.upper(), w.capitalize(), w.lower()])
    return rng.choice(WORDS)


def _r(f, show):
    try:
        return "ok " + show(f())
    except Exception as ex:                                         # noqa: BLE001
        return "ok !" + vlib.exc_kind(ex)


def _b(x):
    return "%d" % bool(x)


def _oi(x):
    return "-" if x is None else "%d" % x


def _cmp(ctx, op, reqs, wants):
    got = ctx.driver(reqs)
    for req, w, g in zip(reqs, wants, got):
        ctx.traces += 1
        if g != w:
            ctx.mismatch(op, req[-400:], w[:300], g[:300])
    ctx.count(op.replace(".", "_"), len(reqs))


def validate_info(ctx):
    from dateutil.parser import _parser as P
    rng = ctx.subrng("pgen.info")
    n = ctx.budget(250, 1500)
    reqs, wants = [], []
    for info, custom in _infos():
        iw = _iw(info, custom)
        p = P.parser(info)
        for _ in range(n):
            w = _word(rng, info)
            for fn, show in (("jump", _b), ("weekday", _oi), ("month", _oi), ("hms", _oi), ("ampm", _oi), ("pertain", _b),
                             ("utczone", _b), ("tzoffset", _oi)):
                reqs.append("pgen.info %s %s %s" % (iw, fn, L.cps(w)))
                wants.append(_r(lambda: getattr(info, fn)(w), show))
        for _ in range(n):
            # validate
            year = rng.choice([None, None, rng.randrange(0, 100), rng.randrange(0, 100), rng.randrange(100, 10000), 0, 49, 50,
                               (info._year - 50) % 100, (info._year + 49) % 100, (info._year + 50) % 100, 10 ** 12])
            cs = rng.random() < 0.3
            tzn = rng.choice([None, None, "", _word(rng, info), "Z", "z", "UTC", "GMT", "BRST"])
            tzo = rng.choice([None, None, 0, 0, 3600, -10800, 1])
            def run():
                res = P.parser._result()
                res.year, res.century_specified, res.tzname, res.tzoffset = year, cs, tzn, tzo
                info.validate(res)
                return "%s %s %s" % (_oi(res.year), L.optname(res.tzname), _oi(res.tzoffset))
            reqs.append("pgen.validate %s %s %d %s %s" % (iw, _oi(year), cs, L.optname(tzn), _oi(tzo)))
            wants.append(_r(run, str))
            # _could_be_tzname
            hour = rng.choice([None, 0, 12, 23]); tzn2 = rng.choice([None, None, None, "X"]); tzo2 = rng.choice([None, None, None, 0, 60])
            tok = _word(rng, info)
            reqs.append("pgen.cbtz %s %s %s %s %s" % (iw, _oi(hour), L.optname(tzn2), _oi(tzo2), L.cps(tok)))
            wants.append(_r(lambda: p._could_be_tzname(hour, tzn2, tzo2, tok), _b))
            # _find_hms_idx / _parse_hms
            toks = [rng.choice([_word(rng, info), " ", " ", str(rng.randrange(0, 60)), "h", "m", "s", sorted(info._hms)[0]])
                    for _ in range(rng.randrange(1, 7))]
            idx = rng.randrange(0, len(toks))
            aj = rng.random() < 0.6
            tw = ";".join(L.cps(t) for t in toks)
            reqs.append("pgen.findhms %s %d %d %s" % (iw, idx, aj, tw))
            wants.append(_r(lambda: p._find_hms_idx(idx, toks, info, aj), _oi))
            try:
                h = p._find_hms_idx(idx, toks, info, aj)
            except Exception:                                       # noqa: BLE001
                h = None
            for hidx in {h, rng.choice([None] + list(range(len(toks))))}:
                reqs.append("pgen.parsehms %s %d %s %s" % (iw, idx, _oi(hidx), tw))
                wants.append(_r(lambda: p._parse_hms(idx, toks, info, hidx), lambda r: "%d %s" % (r[0], _oi(r[1]))))
    _cmp(ctx, "pgen.info", reqs, wants)


def gen_numtok(rng):
    r = rng.random()
    if r < 0.35:
        return str(gen_value(rng))
    if r < 0.7:
        a = "".join(rng.choice(DIGITS) for _ in range(rng.randrange(0, 4)))
        b = "".join(rng.choice(DIGITS) for _ in range(rng.choice([0, 1, 2, 3, 5, 6, 7, 9])))
        return a + "." + b
    if r < 0.8:
        return "".join(rng.choice(DIGITS) for _ in range(rng.choice([26, 27, 28, 29, 30, 31, 40]))) + rng.choice(["", ".5", ".25"])
    if r < 0.9:
        return rng.choice(["1.2.3", "..", ".", "", "1..2", "٣.٥", "٣", "²", "1.²", "12.٣٤"])
    return rng.choice(["inf", "Infinity", "nan", "NaN", "snan", "sNaN", "INF", "abc", "infinit", "nan1", "e", "İnf", "ınf"])


def validate_small(ctx):
    from dateutil.parser import _parser as P
    import datetime
    rng = ctx.subrng("pgen.small")
    n = ctx.budget(1200, 6000)
    p = P.parser()
    reqs, wants = [], []
    for _ in range(n):
        hour = rng.choice([None, 0, 1, 11, 12, 13, 23, 24, 99]); ampm = rng.choice([None, None, 0, 1]); fz = rng.random() < 0.5
        reqs.append("pgen.ampm %s %s %d" % (_oi(hour), _oi(ampm), fz))
        wants.append(_r(lambda: p._ampm_valid(hour, ampm, fz), _b))
        t = gen_numtok(rng)
        reqs.append("pgen.todec %s %s" % (L.cps(t), L.classes(t)))
        def dec():
            d = p._to_decimal(t).as_tuple()
            if d.exponent > 0: raise AssertionError("positive exponent")
            return "%d %d" % (int("".join(map(str, d.digits))), -d.exponent)
        wants.append(_r(dec, str))
        reqs.append("pgen.parsems %s %s" % (L.cps(t), L.classes(t)))
        wants.append(_r(lambda: p._parsems(t), lambda r: "%d %d" % r))
        hms = rng.choice([0, 1, 2, 2, 3])
        reqs.append("pgen.assignhms %s %s %d" % (L.cps(t), L.classes(t), hms))
        def ah():
            res = P.parser._result()
            p._assign_hms(res, t, hms)
            return " ".join(_oi(x) for x in (res.hour, res.minute, res.second, res.microsecond))
        wants.append(_r(ah, str))
        num, sc = gen_decimal(rng) if rng.random() < 0.8 else (rng.randrange(0, 10 ** rng.randrange(25, 34)), rng.randrange(0, 4))
        reqs.append("pgen.minsec %d %d" % (num, sc))
        wants.append(_r(lambda: p._parse_min_sec(_dec(num, sc)), lambda r: "%d %s" % (r[0], _oi(r[1]))))
        n0, n1, nm = (rng.choice([None, "EST", "EDT", "", "BST", "GMT"]) for _ in range(3))
        class Z(datetime.tzinfo):
            def tzname(self, dt): return n1 if dt.fold else n0
            def utcoffset(self, dt): return datetime.timedelta(0)
            def dst(self, dt): return None
        reqs.append("pgen.assigntz %s %s %s" % (L.optname(n0), L.optname(n1), L.optname(nm)))
        wants.append(_r(lambda: p._assign_tzname(datetime.datetime(2020, 11, 1, 1, 30, tzinfo=Z()), nm).fold, str))
    _cmp(ctx, "pgen.small", reqs, wants)


# ------------------------------------------------------------------ _parse_numeric_token
FRAGS = ["2003", "03", "9", "25", "10", "1999", "99", "31", "12", "13", "00", "0", "59", "100", "101", "7",
         "20030925", "200309251041", "20030925104159", "990925", "104159", "104159.5", "104159.123456", "1041", "23", "2359",
         "10.5", "10.59", "1.5", "36.5", "0.5", "12345", "1234567", "123456789", "1" * 30, "٢٥", "٢٠٠٣", "1².5"]
SEPS = ["-", "/", ".", ":", " ", ",", "T", " ", " ", "-", ":"]
WORDS2 = ["h", "m", "s", "hours", "min", "sec", "am", "pm", "AM", "a", "p", "Sep", "sept", "January", "of", "at", "Thu", "UTC",
          "Z", "x", "foo", "and", "th", "ad"]
YMD_STATES = [([], 0, None, None, None), ([], 0, None, None, None), ([2003], 1, None, None, 0), ([9], 0, None, 0, None),
              ([25], 0, None, None, None), ([2003, 9], 1, None, 1, 0), ([25, 9], 0, None, 1, None), ([9, 25], 0, None, 0, None),
              ([2003, 9, 25], 1, None, None, 0), ([25, 9, 3], 0, None, 1, None), ([1, 2, 3], 0, None, None, None),
              ([2, 2000], 1, None, 0, 1), ([13], 0, None, 0, None), ([4], 0, 0, None, None), ([1, 2, 3, 4], 0, None, None, None)]


TEMPLATES = ["%s:%s", "%s:%s:%s", "%s:%s:%s.%s", "%s:%s.%s", "%s-%s-%s", "%s/%s/%s", "%s-%s", "%s/%s", "%s-Sep-%s", "%s-sept",
             "%s/Jan/%s", "%s-%s-Jan", "%s-foo-%s", "%s- %s", "%s %s", "%s h %s m", "%sh%sm%ss", "%s h", "%s m %s", "h%s", "m %s",
             "%s am", "%sam", "%s pm %s", "%s of %s", "%s, %s", "%s.%s.%s", "%s %s:%s", "%sT%s", "%s-%s-%s %s:%s:%s", "%s:%s:",
             "%s:", "%s-", "%s:%s:x", "%s-%s-", "%s x"]


def gen_numtok_case(rng, info):
    from dateutil.parser import _parser as P
    parts = []
    if rng.random() < 0.5:
        t = rng.choice(TEMPLATES)
        small = [f for f in FRAGS if len(f) <= 4]
        parts = [t % tuple(rng.choice(small if rng.random() < 0.8 else FRAGS) for _ in range(t.count("%s")))]
        if rng.random() < 0.3:
            parts.insert(0, rng.choice(["", "x ", "Sep ", "10 "]))
    for _ in range(rng.randrange(1, 7) if not parts else 0):
        r = rng.random()
        parts.append(rng.choice(FRAGS) if r < 0.5 else rng.choice(SEPS) if r < 0.8 else _word(rng, info) if r < 0.9 else rng.choice(WORDS2))
    if rng.random() < 0.5 or len(parts) <= 2:
        toks = P._timelex.split("".join(parts))
    else:
        toks = [t for t in parts if t != ""]
    nums = [i for i, t in enumerate(toks) if t and (t[0].isdigit() or t[0] == ".")]
    if not nums or not toks:
        toks = toks + [rng.choice(FRAGS)]
        nums = [len(toks) - 1]
    idx = rng.choice(nums) if rng.random() < 0.93 else rng.randrange(0, len(toks))
    return toks, idx


def validate_numtok(ctx):
    from dateutil.parser import _parser as P
    rng = ctx.subrng("pgen.numtok")
    n = ctx.budget(700, 4000)
    reqs, wants = [], []
    for info, custom in _infos():
        iw = _iw(info, custom)
        p = P.parser(info)
        for _ in range(n):
            toks, idx = gen_numtok_case(rng, info)
            vals, cent, d, m, y = rng.choice(YMD_STATES)
            hour = rng.choice([None, None, None, 10])
            fz = rng.random() < 0.3
            text = "".join(toks)
            reqs.append("pgen.numtok %s %d %d %s %s %s|%d|%s|%s|%s %s" % (
                iw, fz, idx, ";".join(L.cps(t) for t in toks), L.classes(text), ",".join(map(str, vals)), cent, _oi(d), _oi(m),
                _oi(y), _oi(hour)))
            def run():
                ymd = P._ymd()
                list.extend(ymd, vals)
                ymd.century_specified, ymd.dstridx, ymd.mstridx, ymd.ystridx = bool(cent), d, m, y
                res = P.parser._result()
                res.hour = hour
                j = p._parse_numeric_token(list(toks), idx, info, ymd, res, fz)
                return "%d ; %s ; %s" % (j, _state(ymd), " ".join(_oi(x) for x in (res.hour, res.minute, res.second, res.microsecond)))
            wants.append(_r(run, str))
    _cmp(ctx, "pgen.numtok", reqs, wants)


# ------------------------------------------------------------------ one iteration of the token loop of parser._parse
_STEP = {}


def step_function():
    """the body of `while i < len_l:` in parser._parse of the tree under test, compiled as a function of its free variables"""
    import ast, inspect, textwrap
    from dateutil.parser import _parser as P
    if P in _STEP:
        return _STEP[P]
    tree = ast.parse(textwrap.dedent(inspect.getsource(P.parser._parse)))
    loops = [n for n in ast.walk(tree) if isinstance(n, ast.While)]
    assert len(loops) == 1
    fn = ast.parse("def _step(self, l, i, len_l, info, res, ymd, skipped_idxs, fuzzy, timestr):\n    pass\n").body[0]
    fn.body = loops[0].body + [ast.parse("return l, i, res, ymd, skipped_idxs").body[0]]
    mod = ast.Module(body=[fn], type_ignores=[])
    ast.fix_missing_locations(mod)
    ns = dict(P.__dict__)
    exec(compile(mod, "<while body of parser._parse>", "exec"), ns)
    _STEP[P] = ns["_step"]
    return _STEP[P]


def loop_function():
    """the whole `while i < len_l:` statement of parser._parse, compiled as a function of its free variables"""
    import ast, inspect, textwrap
    from dateutil.parser import _parser as P
    if ("loop", P) in _STEP:
        return _STEP[("loop", P)]
    tree = ast.parse(textwrap.dedent(inspect.getsource(P.parser._parse)))
    loops = [n for n in ast.walk(tree) if isinstance(n, ast.While)]
    assert len(loops) == 1
    fn = ast.parse("def _loop(self, l, i, len_l, info, res, ymd, skipped_idxs, fuzzy, timestr):\n    pass\n").body[0]
    fn.body = [loops[0], ast.parse("return l, i, res, ymd, skipped_idxs").body[0]]
    mod = ast.Module(body=[fn], type_ignores=[])
    ast.fix_missing_locations(mod)
    ns = dict(P.__dict__)
    exec(compile(mod, "<while loop of parser._parse>", "exec"), ns)
    _STEP[("loop", P)] = ns["_loop"]
    return ns["_loop"]


def validate_loop(ctx):
    from dateutil.parser import _parser as P
    rng = ctx.subrng("pgen.loop")
    n = ctx.budget(400, 2500)
    loop = loop_function()
    reqs, wants = [], []
    for info, custom in _infos():
        iw = _iw(info, custom)
        p = P.parser(info)
        for _ in range(n):
            if rng.random() < 0.7:
                text = " ".join(rng.choice(STEP_TEXTS) for _ in range(rng.choice([1, 1, 2, 3])))
                toks = P._timelex.split(text)
            else:
                toks, _i = gen_numtok_case(rng, info)
            if not toks:
                continue
            fz = rng.random() < 0.4
            reqs.append("pgen.loop %s %d %s %s" % (iw, fz, ";".join(L.cps(t) for t in toks), L.classes("".join(toks))))
            def run():
                res = P.parser._result()
                l2, i2, res, ymd, sk = loop(p, list(toks), 0, len(toks), info, res, P._ymd(), [], fz, "text")
                return "%s ; %s %s %s ; %s ; %s" % (
                    ";".join(L.cps(t) for t in l2),
                    " ".join(_oi(x) for x in (res.weekday, res.hour, res.minute, res.second, res.microsecond, res.ampm)),
                    L.optname(res.tzname), _oi(res.tzoffset), _state(ymd), ",".join(map(str, sk)))
            wants.append(_r(run, str))
    _cmp(ctx, "pgen.loop", reqs, wants)


def validate_parse(ctx):
    from dateutil.parser import _parser as P
    rng = ctx.subrng("pgen.parse")
    n = ctx.budget(400, 2500)
    reqs, wants = [], []
    for info, custom in _infos():
        iw = _iw(info, custom)
        p = P.parser(info)
        for _ in range(n):
            r = rng.random()
            if r < 0.6:
                text = " ".join(rng.choice(STEP_TEXTS) for _ in range(rng.choice([1, 1, 2, 3])))
            elif r < 0.9:
                toks, _i = gen_numtok_case(rng, info)
                text = "".join(toks)
            else:
                text = rng.choice(["", " ", "٢٠٠٣-٠٩-٢٥", "10:36:28.5 PM", "Today is 25 of September of 2003, exactly at 10:49:41",
                                   "2003-09-25T10:49:41.5-03:00", "Thu, 25 Sep 2003 10:49:41 -0300", "1\x002", "K", "\u212a"])
            df = rng.choice([-1, -1, 0, 1]); yf = rng.choice([-1, -1, 0, 1]); fz = rng.random() < 0.3; fwt = rng.random() < 0.25
            reqs.append("pgen.parse %s %d %d %d %d %s %s" % (iw, df, yf, fz, fwt, L.cps(text), L.classes(text)))
            def run():
                res, tk = p._parse(text, dayfirst=None if df < 0 else bool(df), yearfirst=None if yf < 0 else bool(yf), fuzzy=fz,
                                   fuzzy_with_tokens=fwt)
                if res is None:
                    return "N"
                return "%s %s %s %d ; %s" % (
                    " ".join(_oi(x) for x in (res.year, res.month, res.day, res.weekday, res.hour, res.minute, res.second,
                                              res.microsecond, res.ampm)),
                    L.optname(res.tzname), _oi(res.tzoffset), bool(res.century_specified),
                    "-" if tk is None else "[" + ",".join(L.cps(t) for t in tk) + "]")
            wants.append(_r(run, str))
    _cmp(ctx, "pgen.parse", reqs, wants)


def validate_recombine(ctx):
    from dateutil.parser import _parser as P
    rng = ctx.subrng("pgen.recombine")
    p = P.parser()
    reqs, wants = [], []
    for _ in range(ctx.budget(1500, 8000)):
        toks = [rng.choice(["a", "b", " ", "12", ",", "foo", ""]) for _ in range(rng.randrange(0, 8))]
        k = rng.random()
        if k < 0.7:      # what _parse hands over: increasing indices
            idxs = sorted(rng.sample(range(len(toks)), rng.randrange(0, len(toks) + 1))) if toks else []
        elif k < 0.9:    # any order, repeats
            idxs = [rng.randrange(0, max(1, len(toks))) for _ in range(rng.randrange(0, 6))] if toks else []
        else:            # out of range
            idxs = [rng.randrange(0, len(toks) + 3) for _ in range(rng.randrange(1, 5))]
        reqs.append("pgen.recombine %s %s" % (";".join(L.cps(t) for t in toks) if toks else "E", ",".join(map(str, idxs)) or "N"))
        wants.append(_r(lambda: p._recombine_skipped(list(toks), list(idxs)), lambda r: "[" + ",".join(L.cps(t) for t in r) + "]"))
    _cmp(ctx, "pgen.recombine", reqs, wants)


def validate_init(ctx):
    """parserinfo.__init__ of the stock class and of the custom subclasses, with the clock's year patched"""
    import time as _time
    from dateutil.parser import _parser as P
    from dateutil.parser import parserinfo
    rng = ctx.subrng("pgen.init")
    reqs, wants = [], []
    classes = [(parserinfo, False)] + [(k, True) for _, k in L.custom_infos()]
    real = P.time.localtime
    try:
        for _ in range(ctx.budget(300, 1500)):
            klass, custom = rng.choice(classes)
            year = rng.choice([1970, 1999, 2000, 2026, 2099, 2100, 9999, 100, 99, 1, rng.randrange(1, 10000)])
            df, yf = rng.random() < 0.5, rng.random() < 0.5
            P.time.localtime = lambda *a: _time.struct_time((year, 1, 1, 0, 0, 0, 0, 1, 0))
            def run():
                i = klass(df, yf)
                def keys(d): return ",".join(L.cps(k) for k in d)
                def items(d): return ",".join("%s=%d" % (L.cps(k), v) for k, v in d.items())
                return "%d %d %d %d ; %s ; %s ; %s ; %s ; %s ; %s ; %s" % (
                    i._year, i._century, i.dayfirst, i.yearfirst, keys(i._jump), items(i._weekdays), items(i._months), items(i._hms),
                    items(i._ampm), keys(i._utczone), keys(i._pertain))
            w = _r(run, str)
            inst = klass(df, yf)
            reqs.append("pgen.init %s %d %d %d" % (L.info_wire(inst, custom) if custom else "D00", year, df, yf))
            wants.append(w)
    finally:
        P.time.localtime = real
    _cmp(ctx, "pgen.init", reqs, wants)


def validate_tzinfo(ctx):
    from dateutil.parser import _parser as P
    from dateutil import tz
    rng = ctx.subrng("pgen.tzinfo")
    p = P.parser()
    names = [None, "", "BRST", "EST", "X", "UTC"]
    strs = ["EST5EDT", "CET-1CEST,M3.5.0,M10.5.0/3", "UTC+3", "bad string", "", "BRST+3BRDT,M13.1.0,M2.3.0", "A" * 3 + "999999999999"]
    def val():
        k = rng.random()
        if k < 0.25: return ("o", rng.randrange(len(L.tzobjs())))
        if k < 0.5: return ("s", rng.choice(strs))
        if k < 0.7: return ("i", rng.choice([0, 3600, -10800, 86399, 10 ** 15, -10 ** 15]))
        if k < 0.8: return ("n",)
        return ("b",)
    reqs, wants = [], []
    for _ in range(ctx.budget(1500, 8000)):
        kind = rng.choice(["none", "map", "map", "call", "call"])
        ents = {rng.choice(names): val() for _ in range(rng.randrange(0, 4))}
        dflt = rng.choice([("n",), ("e",), ("r",), val()]) if kind == "call" else ("n",)
        if kind == "call" and rng.random() < 0.2 and ents:
            ents[rng.choice(list(ents))] = ("r",)
        spec = L.TzSpec(kind, ents, dflt)
        name = rng.choice(names); off = rng.choice([None, 0, 3600, -10800, 10 ** 15])
        reqs.append("pgen.tzinfo %s %s %s" % (spec.wire(), L.optname(name), _oi(off)))
        def run():
            o = p._build_tzinfo(spec.arg(), name, off)
            if o is None: return "dn"
            for k, z in enumerate(L.tzobjs()):
                if o is z: return "do%d" % k
            if isinstance(o, tz.tzoffset): return "f %s %d" % (L.optname(o._name), int(o._offset.total_seconds()))
            if isinstance(o, tz.tzstr): return "s" + L.cps(o._s)
            return "other " + type(o).__name__
        wants.append(_r(run, str))
    _cmp(ctx, "pgen.tzinfo", reqs, wants)


class _TailCtx:
    """the model_answers machinery of _parser_lib with `parser.parse` requests sent to the TRANSLATED tail of parse()"""

    def __init__(self, ctx):
        self.ctx = ctx

    def driver(self, lines):
        return self.ctx.driver([("pgen.parsetail " + x[len("parser.parse "):]) if x.startswith("parser.parse ") else x for x in lines])

    def __getattr__(self, n):
        return getattr(self.ctx, n)


def validate_parsetail(ctx):
    from props import c14
    rng = ctx.subrng("pgen.parsetail")
    prev = L.set_tz("UTC")
    try:
        for tzenv in ("UTC", "Europe/London"):
            L.set_tz(tzenv)
            calls = c14.gen_calls(ctx, rng, ctx.budget(1500, 8000))
            model = L.model_answers(_TailCtx(ctx), calls)
            for c, m in zip(calls, model):
                i, _, _ = L.run_impl(c)
                ctx.traces += 1
                if i != m:
                    ctx.mismatch("pgen.parsetail", c.describe(), i, m)
            ctx.count("pgen_parsetail", len(calls))
    finally:
        L.set_tz(prev)


STEP_TEXTS = ["10:36:28 BRST", "10:36 GMT+3", "10:36 UTC-3", "10:36 -0300 (BRST)", "10:36 +03:00", "10:36 -3", "10:36 +0300", "10:36 -030",
              "10:36 -03:00 (EST)", "10:36 +0300 (ABCDEF)", "10:36 +0300 , (BRT)", "Sep-25-2003", "Sep/25", "Sep-25", "Jan of 01", "Jan of ab",
              "Jan of 2001", "September of 99", "Sep 25", "10 pm", "10pm", "am 10", "Thu Sep 25 10:36:28 2003", "Thursday", "10 a", "x y z",
              "Sep-", "Sep - 25", "10:36 Z", "10:36 EST", "10:36 est", "10:36 ABCDEF", "10:36 +", "10:36 -ab", "10:36 +1:", "25 Sept 2003",
              "of", "at", ",", "T10", "10 UTC+3", "10 BRST-3", "10 Z+1", "10 MSK", "pm", "PM", "noon", "12 vechera", "Pn", "yan-01-99"]


def validate_step(ctx):
    from dateutil.parser import _parser as P
    rng = ctx.subrng("pgen.step")
    n = ctx.budget(500, 3000)
    step = step_function()
    reqs, wants = [], []
    for info, custom in _infos():
        iw = _iw(info, custom)
        p = P.parser(info)
        for _ in range(n):
            if rng.random() < 0.75:
                text = rng.choice(STEP_TEXTS)
                if rng.random() < 0.3:
                    text = text + " " + rng.choice(STEP_TEXTS)
                toks = P._timelex.split(text)
            else:
                toks, _i = gen_numtok_case(rng, info)
            if not toks:
                continue
            i = rng.randrange(0, len(toks))
            vals, cent, d, m, y = rng.choice(YMD_STATES)
            hour = rng.choice([None, 10, 10, 13, 0]); ampm = rng.choice([None, None, 0]); tzn = rng.choice([None, None, None, "X"])
            tzo = rng.choice([None, None, None, 0])
            fz = rng.random() < 0.4
            reqs.append("pgen.step %s %d %d %s %s %s|%d|%s|%s|%s %s %s %s %s" % (
                iw, fz, i, ";".join(L.cps(t) for t in toks), L.classes("".join(toks)), ",".join(map(str, vals)), cent, _oi(d), _oi(m),
                _oi(y), _oi(hour), _oi(ampm), L.optname(tzn), _oi(tzo)))
            def run():
                ymd = P._ymd()
                list.extend(ymd, vals)
                ymd.century_specified, ymd.dstridx, ymd.mstridx, ymd.ystridx = bool(cent), d, m, y
                res = P.parser._result()
                res.hour, res.ampm, res.tzname, res.tzoffset = hour, ampm, tzn, tzo
                l2, i2, res, ymd, sk = step(p, list(toks), i, len(toks), info, res, ymd, [], fz, "text")
                return "%d ; %s ; %s %s %s ; %s ; %s" % (
                    i2, ";".join(L.cps(t) for t in l2),
                    " ".join(_oi(x) for x in (res.weekday, res.hour, res.minute, res.second, res.microsecond, res.ampm)),
                    L.optname(res.tzname), _oi(res.tzoffset), _state(ymd), ",".join(map(str, sk)))
            wants.append(_r(run, str))
    _cmp(ctx, "pgen.step", reqs, wants)


def validate_naive(ctx):
    from dateutil.parser import _parser as P
    import datetime
    rng = ctx.subrng("pgen.naive")
    n = ctx.budget(1500, 8000)
    p = P.parser()
    reqs, wants = [], []
    def opt(f, pnone=0.5):
        return None if rng.random() < pnone else f()
    for _ in range(n):
        dflt = datetime.datetime(rng.choice([1, 4, 1999, 2000, 2003, 2024, 9999]), rng.randrange(1, 13), 1, rng.randrange(24),
                                 rng.randrange(60), rng.randrange(60), rng.choice([0, 999999, rng.randrange(10 ** 6)]))
        dim = [31, 29 if dflt.year % 4 == 0 and (dflt.year % 100 or dflt.year % 400 == 0) else 28, 31, 30, 31, 30, 31, 31, 30, 31, 30, 31][dflt.month - 1]
        dflt = dflt.replace(day=rng.choice([1, 28, dim, dim, rng.randrange(1, dim + 1)]))
        y = opt(lambda: rng.choice([0, 1, 4, 1900, 2000, 2003, 2023, 2024, 9999, 10000, 2 ** 31 - 1, 2 ** 31]))
        m = opt(lambda: rng.choice([0, 1, 2, 2, 4, 6, 9, 11, 12, 13, 2 ** 31]))
        d = opt(lambda: rng.choice([0, 1, 28, 29, 30, 31, 32]), 0.6)
        wd = opt(lambda: rng.choice([0, 1, 2, 3, 4, 5, 6, 6, 7, 8]), 0.6)
        hh = opt(lambda: rng.choice([0, 12, 23, 24, 2 ** 31])); mm = opt(lambda: rng.choice([0, 59, 60]), 0.7)
        ss = opt(lambda: rng.choice([0, 59, 60, 61]), 0.7); us = opt(lambda: rng.choice([0, 999999, 1000000]), 0.8)
        reqs.append("pgen.naive %s [%s]" % (" ".join(_oi(x) for x in (y, m, d, wd, hh, mm, ss, us)),
                                            ",".join(str(x) for x in (dflt.year, dflt.month, dflt.day, dflt.hour, dflt.minute, dflt.second, dflt.microsecond))))
        def run():
            res = P.parser._result()
            res.year, res.month, res.day, res.weekday, res.hour, res.minute, res.second, res.microsecond = y, m, d, wd, hh, mm, ss, us
            t = p._build_naive(res, dflt)
            return "%d %d %d %d %d %d %d" % (t.year, t.month, t.day, t.hour, t.minute, t.second, t.microsecond)
        wants.append(_r(run, str))
    _cmp(ctx, "pgen.naive", reqs, wants)


def validate(ctx):
    """run every `pgen.*` validation (called from the correspondence of C14)"""
    validate_ymd(ctx)
    validate_info(ctx)
    validate_small(ctx)
    validate_numtok(ctx)
    validate_step(ctx)
    validate_naive(ctx)
    validate_loop(ctx)
    validate_parse(ctx)
    validate_parsetail(ctx)
    validate_recombine(ctx)
    validate_init(ctx)
    validate_tzinfo(ctx)
