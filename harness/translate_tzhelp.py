#!/usr/bin/env python3
"""
translate_tzhelp.py — Python AST -> Lean 4 for "HelpPy": the module-level PEP 495 helpers of tz/tz.py
(`datetime_exists`, `datetime_ambiguous`, `resolve_imaginary`, `_get_supported_offset`) and the methods of the fixed zones
`tzutc` / `tzoffset` (`utcoffset`, `dst`, `tzname`, `is_ambiguous`, the body of `fromutc`, `__eq__`, `tzoffset.__init__`, plus the
class-level facts `__hash__ = None`, `__reduce__ = object.__reduce__`, `__ne__` = not `__eq__`).

Output: Generated/TzHelpKernels.lean (namespace Gen), one definition per function, in do-notation of the exception monad.
Types: Dt (HelpPy.HDt: wall seconds, fold, tzinfo-or-None), NDt (the same, statically naive: result of `replace(tzinfo=None)`),
Zone / OptZone (HelpPy.Zone objects with identity), Bool, Int (ints and timedeltas in seconds), OptInt, HasFn (the result of
`getattr(tz, 'is_ambiguous', None)`), Fixed (a tzoffset object), OffArg (number or timedelta), Name (bytes or None),
Other (Fact.Zone: the operand of `__eq__`), Tri (True / False / NotImplemented).  An early `return` / `raise` inside an `if` or
`try` is handled by continuation duplication; an `if` without one returns the names it assigns, which must keep their types
(so `dt = dt.replace(tzinfo=None)` moved into a branch is Untranslatable).  Anything else raises Untranslatable(<construct>).
"""
import ast, os, hashlib
from translate import Untranslatable

LEAN_TY = {"Dt": "HelpPy.HDt", "NDt": "HelpPy.HDt", "Zone": "HelpPy.Zone", "OptZone": "(Option HelpPy.Zone)", "Bool": "Bool",
           "Int": "Int", "OptInt": "(Option Int)", "HasFn": "Bool", "Fixed": "HelpPy.Fixed", "OffArg": "HelpPy.OffArg",
           "Name": "(Option (List UInt8))", "Other": "Fact.Zone", "Tri": "Fact.Tri", "Local": "HelpPy.Local", "Str": "String",
           "StrPair": "(String × String)"}


class Fn:
    def __init__(self, qual, lean, params, ret, self_ty=None, ctor=False, versioned=False):
        self.qual, self.lean, self.params, self.ret, self.self_ty, self.ctor, self.versioned = qual, lean, params, ret, self_ty, ctor, versioned


SPECS = [
    Fn("_get_supported_offset", "getSupportedOffset", [("second_offset", "Int")], "Int", versioned=True),
    Fn("datetime_exists", "datetimeExists", [("dt", "Dt"), ("tz", "OptZone")], "Bool"),
    Fn("datetime_ambiguous", "datetimeAmbiguous", [("dt", "Dt"), ("tz", "OptZone")], "Bool"),
    Fn("resolve_imaginary", "resolveImaginary", [("dt", "Dt")], "Dt"),
    Fn("tzutc.utcoffset", "tzutc_utcoffset", [("dt", "Dt")], "Int", self_ty="Unit"),
    Fn("tzutc.dst", "tzutc_dst", [("dt", "Dt")], "Int", self_ty="Unit"),
    Fn("tzutc.tzname", "tzutc_tzname", [("dt", "Dt")], "Name", self_ty="Unit"),
    Fn("tzutc.is_ambiguous", "tzutc_isAmbiguous", [("dt", "Dt")], "Bool", self_ty="Unit"),
    Fn("tzutc.fromutc", "tzutc_fromutc", [("dt", "Dt")], "Dt", self_ty="Unit"),
    Fn("tzutc.__eq__", "tzutc_eq", [("other", "Other")], "Tri", self_ty="Unit"),
    Fn("tzoffset.__init__", "tzoffset_init", [("name", "Name"), ("offset", "OffArg")], "Fixed", ctor=True),
    Fn("tzoffset.utcoffset", "tzoffset_utcoffset", [("dt", "Dt")], "Int", self_ty="Fixed"),
    Fn("tzoffset.dst", "tzoffset_dst", [("dt", "Dt")], "Int", self_ty="Fixed"),
    Fn("tzoffset.tzname", "tzoffset_tzname", [("dt", "Dt")], "Name", self_ty="Fixed"),
    Fn("tzoffset.is_ambiguous", "tzoffset_isAmbiguous", [("dt", "Dt")], "Bool", self_ty="Fixed"),
    Fn("tzoffset.fromutc", "tzoffset_fromutc", [("dt", "Dt")], "Dt", self_ty="Fixed"),
    Fn("tzoffset.__eq__", "tzoffset_eq", [("other", "Other")], "Tri", self_ty="Fixed"),
    Fn("tzlocal.__init__", "tzlocal_init", [], "Local", ctor=True),
    Fn("tzlocal.__eq__", "tzlocal_eq", [("other", "Other")], "Tri", self_ty="Local"),
]
BY_NAME = {s.qual: s for s in SPECS}
FIELDS = {"Fixed": {"_name": ("name", "Name"), "_offset": ("offset", "Int")},
          "Local": {"_std_offset": ("stdOffset", "Int"), "_dst_offset": ("dstOffset", "Int"), "_dst_saved": ("dstSaved", "Int"),
                    "_hasdst": ("hasdst", "Bool"), "_tznames": ("tznames", "StrPair")}}
CTOR_FIELDS = FIELDS["Fixed"]


def find_def(tree, qual, versioned=False):
    parts = qual.split(".")
    if versioned:
        for node in tree.body:
            if isinstance(node, ast.If) and "version_info" in ast.dump(node.test):
                for d in node.body:
                    if isinstance(d, ast.FunctionDef) and d.name == parts[0]:
                        return d
        raise Untranslatable("%s not found under the version test" % qual)
    body = tree.body
    for p in parts[:-1]:
        cls = [n for n in body if isinstance(n, ast.ClassDef) and n.name == p]
        if not cls: raise Untranslatable("class %s not found" % p)
        body = cls[0].body
    fs = [n for n in body if isinstance(n, ast.FunctionDef) and n.name == parts[-1]]
    if len(fs) != 1: raise Untranslatable("function %s not found" % qual)
    return fs[0]


def escapes(stmts):
    return any(isinstance(n, (ast.Return, ast.Raise)) for s in stmts for n in ast.walk(s))


class Tr:
    def __init__(self, spec):
        self.spec = spec
        self.env = {}
        self.tmp = 0
        self.cfields = FIELDS.get(spec.ret if spec.ctor else (spec.self_ty or ""), {})

    def fresh(self):
        self.tmp += 1
        return "t%d" % self.tmp

    def coerce(self, b, t, ty, want):
        if ty == want: return b, t
        if ty == "NDt" and want == "Dt": return b, t
        if ty == "None" and want in ("OptZone", "OptInt", "Name"): return b, "none"
        if ty == "Zone" and want == "OptZone": return b, "(some %s)" % t
        if ty == "OptZone" and want == "Zone":
            n = self.fresh()
            return b + [(n, "←", "(match %s with | some z => pure z | none => throw Py.PyErr.NotImplemented : Py.R HelpPy.Zone)" % t)], n
        if ty == "OffArg" and want == "Int":
            n = self.fresh()
            return b + [(n, "←", "HelpPy.needNum %s" % t)], n
        if ty == "Bool" and want == "Tri": return b, "(Fact.Tri.ofBool %s)" % t
        if ty == "StrLit" and want == "Name":
            return b, "(some [%s])" % ", ".join(str(c) for c in t.encode("ascii"))
        raise Untranslatable("a value of type %s where %s is expected" % (ty, want))

    # ---------------------------------------------------------------- expressions -> (binds, term, type)
    def expr(self, e):
        if isinstance(e, ast.Constant):
            if e.value is None: return [], "none", "None"
            if e.value is True or e.value is False: return [], str(e.value).lower(), "Bool"
            if isinstance(e.value, int): return [], "(%d)" % e.value, "Int"
            if isinstance(e.value, str): return [], e.value, "StrLit"
        if isinstance(e, ast.Name):
            if e.id in self.env: return [], e.id, self.env[e.id]
            if e.id == "ZERO": return [], "0", "Int"
            if e.id == "UTC": return [], "HelpPy.UTC", "Zone"
            if e.id == "NotImplemented": return [], "Fact.Tri.ni", "Tri"
            raise Untranslatable("name %s" % e.id)
        if isinstance(e, ast.Attribute):
            if isinstance(e.value, ast.Name) and e.value.id == "self" and e.attr in self.cfields:
                if self.spec.ctor:
                    if ("self_" + e.attr) not in self.env: raise Untranslatable("self.%s read before it is set" % e.attr)
                    return [], "self_" + e.attr, self.env["self_" + e.attr]
                f, ty = self.cfields[e.attr]
                return [], "self.%s" % f, ty
            if isinstance(e.value, ast.Name) and e.value.id == "time" and e.attr in ("timezone", "altzone", "daylight"):
                return [], "tm.%s" % e.attr, "Int"
            if isinstance(e.value, ast.Name) and e.value.id == "time" and e.attr == "tzname":
                return [], "tm.tzname", "StrPair"
            b, t, ty = self.expr(e.value)
            if ty in ("Dt", "NDt") and e.attr == "tzinfo": return b, "%s.tz" % t, "OptZone"
            if ty == "Other" and e.attr in ("_offset", "_std_offset", "_dst_offset", "_name"):
                n = self.fresh()
                prim, rty = {"_offset": ("offsetOf", "Int"), "_std_offset": ("locStd", "Int"), "_dst_offset": ("locDst", "Int"),
                             "_name": ("nameOfZone", "Str")}[e.attr]
                return b + [(n, "←", "HelpPy.%s %s" % (prim, t))], n, rty
            raise Untranslatable("attribute .%s of %s" % (e.attr, ty))
        if isinstance(e, ast.UnaryOp) and isinstance(e.op, ast.USub):
            b, t, ty = self.expr(e.operand)
            if ty == "Int": return b, "(-%s)" % t, "Int"
            raise Untranslatable("unary minus on %s" % ty)
        if isinstance(e, ast.Subscript) and isinstance(e.slice, ast.Constant) and e.slice.value in (0, 1):
            b, t, ty = self.expr(e.value)
            if ty == "StrPair": return b, "%s.%d" % (t, e.slice.value + 1), "Str"
            raise Untranslatable("subscript of %s" % ty)
        if isinstance(e, ast.BinOp):
            bl, l, tl = self.expr(e.left); br, r, tr = self.expr(e.right)
            if isinstance(e.op, ast.Sub) and tl == tr == "NDt": return bl + br, "(%s.wall - %s.wall)" % (l, r), "Int"
            if isinstance(e.op, ast.Add) and tl in ("Dt", "NDt") and tr == "Int": return bl + br, "(HelpPy.addTd %s %s)" % (l, r), tl
            if isinstance(e.op, (ast.Add, ast.Sub)) and tl == tr == "Int":
                return bl + br, "(%s %s %s)" % (l, "+" if isinstance(e.op, ast.Add) else "-", r), "Int"
            raise Untranslatable("operator %s on %s, %s" % (type(e.op).__name__, tl, tr))
        if isinstance(e, ast.Call):
            return self.call(e)
        if isinstance(e, (ast.BoolOp, ast.Compare)) or (isinstance(e, ast.UnaryOp) and isinstance(e.op, ast.Not)):
            return self.boolval(e)
        raise Untranslatable("expression %s" % type(e).__name__)

    def call(self, e):
        f = e.func
        if isinstance(f, ast.Name):
            if f.id == "bool" and len(e.args) == 1:
                b, t, ty = self.expr(e.args[0])
                if ty == "Int": return b, "(%s != 0)" % t, "Bool"
            if f.id == "tuple" and len(e.args) == 1:
                b, t, ty = self.expr(e.args[0])
                if ty == "StrPair": return b, t, ty
            if f.id == "abs" and len(e.args) == 1:
                b, t, ty = self.expr(e.args[0])
                if ty == "Int": return b, "(Py.iabs %s)" % t, "Int"
            if f.id == "enfold" and len(e.args) == 1 and len(e.keywords) == 1 and e.keywords[0].arg == "fold":
                b, t, ty = self.expr(e.args[0]); bf, tf, tyf = self.expr(e.keywords[0].value)
                if ty in ("Dt", "NDt") and tyf == "Int": return b + bf, "(HelpPy.enfold %s %s)" % (t, tf), ty
            if f.id == "getattr" and len(e.args) == 3 and isinstance(e.args[1], ast.Constant) and e.args[1].value == "is_ambiguous" \
                    and isinstance(e.args[2], ast.Constant) and e.args[2].value is None:
                b, t, ty = self.expr(e.args[0])
                b, t = self.coerce(b, t, ty, "Zone")
                return b, "(HelpPy.hasIsAmbiguous %s)" % t, "HasFn"
            if f.id == "isinstance" and len(e.args) == 2:
                b, t, ty = self.expr(e.args[0])
                if ty != "Other": raise Untranslatable("isinstance on %s" % ty)
                classes = e.args[1].elts if isinstance(e.args[1], ast.Tuple) else [e.args[1]]
                parts = []
                for c in classes:
                    if not (isinstance(c, ast.Name) and c.id in ("tzutc", "tzoffset", "tzlocal")): raise Untranslatable("isinstance class")
                    parts.append("HelpPy.%s %s" % ({"tzutc": "isTzutc", "tzoffset": "isTzoffset", "tzlocal": "isTzlocal"}[c.id], t))
                return b, "(" + " || ".join(parts) + ")", "Bool"
            if f.id in BY_NAME and "." not in f.id:
                sp = BY_NAME[f.id]
                if e.keywords: raise Untranslatable("keyword call of %s" % f.id)
                binds, args = [], []
                for k, (pn, pt) in enumerate(sp.params):
                    if k < len(e.args):
                        b, t, ty = self.expr(e.args[k])
                    else:
                        b, t, ty = [], "none", "None"           # the default `tz=None`
                        if pt != "OptZone": raise Untranslatable("arity of %s" % f.id)
                    b, t = self.coerce(b, t, ty, pt)
                    binds += b; args.append(t)
                n = self.fresh()
                return binds + [(n, "←", "%s %s" % (sp.lean, " ".join(args)))], n, sp.ret
            raise Untranslatable("call of %s" % f.id)
        if isinstance(f, ast.Attribute):
            if isinstance(f.value, ast.Name) and f.value.id == "datetime" and f.attr == "timedelta" and not e.args \
                    and len(e.keywords) == 1 and e.keywords[0].arg == "seconds":
                b, t, ty = self.expr(e.keywords[0].value)
                b, t = self.coerce(b, t, ty, "Int")
                return b, t, "Int"
            b, t, ty = self.expr(f.value)
            if f.attr == "replace" and ty in ("Dt", "NDt") and not e.args and len(e.keywords) == 1 and e.keywords[0].arg == "tzinfo":
                bz, z, tz_ = self.expr(e.keywords[0].value)
                if tz_ == "None": return b, "(HelpPy.replaceTz %s none)" % t, "NDt"
                bz, z = self.coerce(bz, z, tz_, "OptZone")
                return b + bz, "(HelpPy.replaceTz %s %s)" % (t, z), "Dt"
            if f.attr == "astimezone" and ty in ("Dt", "NDt") and len(e.args) == 1 and not e.keywords:
                bz, z, tz_ = self.expr(e.args[0])
                bz, z = self.coerce(bz, z, tz_, "Zone")
                n = self.fresh()
                return b + bz + [(n, "←", "HelpPy.astimezone %s %s" % (t, z))], n, "Dt"
            if f.attr in ("utcoffset", "dst") and ty in ("Dt", "NDt") and not e.args and not e.keywords:
                n = self.fresh()
                return b + [(n, "←", "HelpPy.%s %s" % (f.attr, t))], n, "OptInt"
            if f.attr == "is_ambiguous" and len(e.args) == 1 and not e.keywords and ty in ("Zone", "OptZone"):
                b, t = self.coerce(b, t, ty, "Zone")
                bd, d, td = self.expr(e.args[0])
                if td not in ("Dt", "NDt"): raise Untranslatable("is_ambiguous(%s)" % td)
                n = self.fresh()
                return b + bd + [(n, "←", "HelpPy.callIsAmbiguous %s %s" % (t, d))], n, "Bool"
            if f.attr == "total_seconds" and ty == "OffArg" and not e.args:
                n = self.fresh()
                return b + [(n, "←", "HelpPy.totalSeconds %s" % t)], n, "OffArg"
        raise Untranslatable("call")

    def cond(self, e):
        if isinstance(e, ast.UnaryOp) and isinstance(e.op, ast.Not):
            b, c = self.cond(e.operand)
            return b, "(!%s)" % c
        if isinstance(e, ast.BoolOp):
            binds, parts = [], []
            for k, v in enumerate(e.values):
                b, c = self.cond(v)
                if b and k > 0:
                    # a later operand that can raise is evaluated under the guard of the earlier ones
                    guard = "(" + (" && " if isinstance(e.op, ast.And) else " || ").join(parts) + ")"
                    inner = " ".join("let %s %s %s;" % x for x in b)
                    n = self.fresh()
                    if isinstance(e.op, ast.And):
                        binds.append((n, "←", "(if %s then do %s pure %s else pure false : Py.R Bool)" % (guard, inner, c)))
                    else:
                        binds.append((n, "←", "(if %s then pure true else do %s pure %s : Py.R Bool)" % (guard, inner, c)))
                    parts = [n]
                    continue
                binds += b; parts.append(c)
            return binds, "(" + (" && " if isinstance(e.op, ast.And) else " || ").join(parts) + ")"
        if isinstance(e, ast.Compare) and len(e.ops) == 1:
            op, right = e.ops[0], e.comparators[0]
            bl, l, tl = self.expr(e.left)
            if isinstance(op, (ast.Is, ast.IsNot)) and isinstance(right, ast.Constant) and right.value is None:
                if tl == "HasFn": return bl, (l if isinstance(op, ast.IsNot) else "(!%s)" % l)
                if tl not in ("OptZone", "OptInt", "Name"): raise Untranslatable("`is None` on %s" % tl)
                return bl, "(%s).%s" % (l, "isNone" if isinstance(op, ast.Is) else "isSome")
            if isinstance(op, ast.In) and isinstance(right, ast.Set) and tl == "Str" \
                    and all(isinstance(x, ast.Constant) and isinstance(x.value, str) for x in right.elts):
                return bl, "(" + " || ".join('%s == "%s"' % (l, x.value) for x in right.elts) + ")"
            br, r, tr = self.expr(right)
            if isinstance(op, (ast.Eq, ast.NotEq)):
                sym = "==" if isinstance(op, ast.Eq) else "!="
                if tl == tr == "NDt": return bl + br, "(%s.wall %s %s.wall)" % (l, sym, r)
                if tl == tr and tl in ("Int", "OptInt", "Bool", "Str"): return bl + br, "(%s %s %s)" % (l, sym, r)
                raise Untranslatable("comparison of %s with %s" % (tl, tr))
            raise Untranslatable("comparison")
        b, t, ty = self.expr(e)
        if ty == "Bool": return b, t
        if ty == "Int": return b, "(%s != 0)" % t
        raise Untranslatable("truth value of %s" % ty)

    def boolval(self, e):
        b, c = self.cond(e)
        return b, c, "Bool"

    # ---------------------------------------------------------------- statements
    def emit(self, binds, pad):
        return ["%slet %s %s %s" % (pad, p, k, r) for p, k, r in binds]

    def rterm(self, e, want=None):
        """a single term of the monad for an expression (its binds folded in)"""
        b, t, ty = self.expr(e)
        if want: b, t = self.coerce(b, t, ty, want); ty = want
        return "(do %s pure %s : Py.R %s)" % (" ".join("let %s %s %s;" % x for x in b), t, LEAN_TY[ty]), ty

    def assigned(self, stmts):
        out = []
        for s in stmts:
            for n in ast.walk(s):
                if isinstance(n, (ast.Assign, ast.AugAssign)):
                    for t in (n.targets if isinstance(n, ast.Assign) else [n.target]):
                        if isinstance(t, ast.Name) and t.id not in out: out.append(t.id)
                        if isinstance(t, ast.Attribute) and isinstance(t.value, ast.Name) and t.value.id == "self" \
                                and ("self_" + t.attr) not in out: out.append("self_" + t.attr)
        return out

    def block(self, stmts, ind):
        pad = "  " * ind
        if not stmts:
            if getattr(self, "noend", False):
                return [pad + "--END--"]
            if self.spec.ctor:
                for a, (f, ty) in self.cfields.items():
                    if self.env.get("self_" + a) != ty: raise Untranslatable("self.%s not set by the constructor" % a)
                return [pad + "pure { %s }" % ", ".join("%s := self_%s" % (f, a) for a, (f, _) in self.cfields.items())]
            return [pad + "throw Py.PyErr.TypeError  -- falls off the end (returns None)"]
        s, rest = stmts[0], stmts[1:]
        if isinstance(s, ast.Expr) and isinstance(s.value, ast.Constant):
            return self.block(rest, ind)
        if isinstance(s, ast.Pass):
            return self.block(rest, ind)
        if isinstance(s, ast.Expr) and isinstance(s.value, ast.Call) and isinstance(s.value.func, ast.Attribute) \
                and s.value.func.attr == "__init__" and isinstance(s.value.func.value, ast.Call) \
                and isinstance(s.value.func.value.func, ast.Name) and s.value.func.value.func.id == "super" and not s.value.args:
            return self.block(rest, ind)                  # _tzinfo.__init__ / datetime.tzinfo.__init__: no state
        if isinstance(s, ast.Return):
            b, t, ty = self.expr(s.value)
            b, t = self.coerce(b, t, ty, self.spec.ret)
            return self.emit(b, pad) + [pad + "pure %s" % t]
        if isinstance(s, ast.Raise):
            ex = s.exc
            name = ex.func.id if isinstance(ex, ast.Call) and isinstance(ex.func, ast.Name) else None
            if name != "ValueError": raise Untranslatable("raise %s" % name)
            return [pad + "throw Py.PyErr.ValueError"]
        if isinstance(s, ast.Assign) and len(s.targets) == 1:
            tg = s.targets[0]
            b, t, ty = self.expr(s.value)
            if isinstance(tg, ast.Name):
                name = tg.id
                old = self.env.get(name)
                if old in ("OptZone",) and ty != old: b, t = self.coerce(b, t, ty, old); ty = old
                if ty in ("None", "StrLit"): raise Untranslatable("cannot type %s" % name)
            elif isinstance(tg, ast.Attribute) and isinstance(tg.value, ast.Name) and tg.value.id == "self" and self.spec.ctor \
                    and tg.attr in self.cfields:
                name = "self_" + tg.attr
                b, t = self.coerce(b, t, ty, self.cfields[tg.attr][1]); ty = self.cfields[tg.attr][1]
            else:
                raise Untranslatable("assignment target")
            self.env[name] = ty
            return self.emit(b, pad) + ["%slet %s : %s := %s" % (pad, name, LEAN_TY[ty], t)] + self.block(rest, ind)
        if isinstance(s, ast.AugAssign) and isinstance(s.target, ast.Name) and isinstance(s.op, ast.Add):
            return self.block([ast.Assign(targets=[s.target], value=ast.BinOp(left=ast.Name(id=s.target.id), op=ast.Add(), right=s.value))] + rest, ind)
        if isinstance(s, ast.If):
            b, c = self.cond(s.test)
            lines = self.emit(b, pad)
            if escapes([s]):
                saved = dict(self.env)
                th = self.block(list(s.body) + rest, ind + 1)
                self.env = dict(saved)
                el = self.block(list(s.orelse) + rest, ind + 1)
                self.env = saved
                return lines + ["%sif %s then do" % (pad, c)] + th + ["%selse do" % pad] + el
            names = self.assigned(list(s.body) + list(s.orelse))
            saved = dict(self.env)
            both = [n for n in self.assigned(list(s.body)) if n in self.assigned(list(s.orelse))]
            names = [n for n in names if n in saved or n in both]   # a name first bound inside ONE branch stays local to it
            if not names: raise Untranslatable("if statement without effect")
            newtypes = {}
            ret = "pure %s" % (names[0] if len(names) == 1 else "(" + ", ".join(names) + ")")
            def branch(body):
                self.env = dict(saved)
                ls = self.block_noend(list(body), ind + 2)
                for n in names:
                    want = saved.get(n) or newtypes.setdefault(n, self.env[n])
                    if self.env[n] != want: raise Untranslatable("%s changes its type in a branch (%s -> %s)" % (n, want, self.env[n]))
                return ls + ["  " * (ind + 2) + ret]
            th = branch(s.body); el = branch(s.orelse)
            self.env = saved
            self.env.update(newtypes)
            tys = [LEAN_TY[self.env[n]] for n in names]
            lines.append("%slet %s ← ((if %s then do" % (pad, names[0] if len(names) == 1 else "(" + ", ".join(names) + ")", c))
            lines += th + ["%s  else do" % pad] + el
            lines.append("%s  ) : Py.R (%s))" % (pad, " × ".join(tys)))
            return lines + self.block(rest, ind)
        if isinstance(s, ast.Try):
            if len(s.handlers) != 1 or s.orelse or s.finalbody or len(s.body) != 1 or len(s.handlers[0].body) != 1 \
                    or not isinstance(s.handlers[0].body[0], ast.Pass):
                raise Untranslatable("try statement shape")
            h, body = s.handlers[0], s.body[0]
            kinds = [x.id for x in (h.type.elts if isinstance(h.type, ast.Tuple) else [h.type])]
            if isinstance(body, ast.Return) and kinds == ["Exception"]:
                term, _ = self.rterm(body.value, self.spec.ret)
                saved = dict(self.env)
                cont = self.block(rest, ind + 2)
                self.env = saved
                return ["%smatch %s with" % (pad, term), "%s| .ok v => pure v" % pad, "%s| .error _ => do" % pad] + cont
            if isinstance(body, ast.Assign) and len(body.targets) == 1 and isinstance(body.targets[0], ast.Name) \
                    and all(k in ("TypeError", "AttributeError") for k in kinds):
                name = body.targets[0].id
                if name not in self.env: raise Untranslatable("try-assigned name %s" % name)
                term, ty = self.rterm(body.value)
                if ty != self.env[name]: raise Untranslatable("%s changes its type in a try" % name)
                arms = ["%s  | .error .%s => pure %s" % (pad, k, name) for k in kinds]
                return ["%slet %s ← (match %s with" % (pad, name, term), "%s  | .ok v => pure v" % pad] + arms + \
                    ["%s  | .error err => throw err : Py.R %s)" % (pad, LEAN_TY[ty])] + self.block(rest, ind)
            raise Untranslatable("try statement shape")
        raise Untranslatable("statement %s" % type(s).__name__)

    def block_noend(self, stmts, ind):
        """statements of a non-escaping branch (assignments only), without a final term"""
        lines = []
        self.noend = True
        try:
            for s in stmts:
                ls = self.block([s], ind)
                if not ls or ls[-1].strip() != "--END--": raise Untranslatable("branch statement")
                lines += ls[:-1]
        finally:
            self.noend = False
        return lines

    def function(self, fn):
        sp = self.spec
        formals = [a.arg for a in fn.args.args if a.arg != "self"]
        if formals != [n for n, _ in sp.params]: raise Untranslatable("signature of %s is %s" % (sp.qual, formals))
        for k, d in enumerate(fn.args.defaults):
            if not (isinstance(d, ast.Constant) and d.value is None): raise Untranslatable("default of %s" % sp.qual)
        for n, t in sp.params: self.env[n] = t
        params = (["(self : %s)" % LEAN_TY[sp.self_ty]] if sp.self_ty in ("Fixed", "Local") else []) + \
            (["(tm : HelpPy.TimeMod)"] if sp.qual == "tzlocal.__init__" else []) + ["(%s : %s)" % (n, LEAN_TY[t]) for n, t in sp.params]
        body = self.block(fn.body, 1)
        text = "/-- translated from `%s` -/\ndef %s %s : Py.R %s := do\n%s\n" % (sp.qual, sp.lean, " ".join(params), LEAN_TY[sp.ret], "\n".join(body))
        return text, hashlib.sha256(ast.dump(fn).encode()).hexdigest()[:16]


def class_facts(tree, cls):
    """`__hash__ = None`, `__reduce__ = object.__reduce__`, `__ne__` = `not (self == other)` as Lean constants"""
    node = [n for n in tree.body if isinstance(n, ast.ClassDef) and n.name == cls]
    if not node: raise Untranslatable("class %s" % cls)
    facts = {"hashIsNone": False, "reduceIsObjectReduce": False, "neIsNotEq": False}
    for st in node[0].body:
        if isinstance(st, ast.Assign) and len(st.targets) == 1 and isinstance(st.targets[0], ast.Name):
            if st.targets[0].id == "__hash__":
                facts["hashIsNone"] = isinstance(st.value, ast.Constant) and st.value.value is None
            if st.targets[0].id == "__reduce__":
                facts["reduceIsObjectReduce"] = ast.dump(st.value) == ast.dump(ast.parse("object.__reduce__").body[0].value)
        if isinstance(st, ast.FunctionDef) and st.name in ("__hash__", "__reduce__", "__reduce_ex__", "__getstate__", "__setstate__"):
            facts["hashIsNone" if st.name == "__hash__" else "reduceIsObjectReduce"] = False
            if st.name != "__hash__": facts["customReduce"] = True
        if isinstance(st, ast.FunctionDef) and st.name == "__ne__":
            want = ast.dump(ast.parse("def __ne__(self, other):\n    return not (self == other)").body[0].body[0])
            body = [b for b in st.body if not (isinstance(b, ast.Expr) and isinstance(b.value, ast.Constant))]
            facts["neIsNotEq"] = len(body) == 1 and ast.dump(body[0]) == want
    if facts.pop("customReduce", False): facts["reduceIsObjectReduce"] = False
    return "".join("/-- class-level fact of `%s` read off the source -/\ndef %s_%s : Bool := %s\n\n" % (cls, cls, k, str(v).lower())
                   for k, v in facts.items())


HELPERS = ["datetime_exists", "datetime_ambiguous", "resolve_imaginary"]
FIXED = [sp.qual for sp in SPECS if sp.qual not in HELPERS]


def translate_files(src_root, groups=None):
    """groups: the qualified names to translate (HELPERS -> Generated/TzHelpKernels.lean, FIXED -> TzFixedKernels.lean)"""
    tree = ast.parse(open(os.path.join(src_root, "tz", "tz.py")).read())
    parts, fps = [], {}
    quals = groups or [sp.qual for sp in SPECS]
    for sp in SPECS:
        if sp.qual not in quals: continue
        fn = find_def(tree, sp.qual, sp.versioned)
        text, fp = Tr(sp).function(fn)
        parts.append(text); fps[sp.qual] = fp
    if any(q.startswith("tzutc.") for q in quals):
        for cls in ("tzutc", "tzoffset", "tzlocal"):
            parts.append(class_facts(tree, cls))
            fps[cls + ".<class facts>"] = hashlib.sha256(parts[-1].encode()).hexdigest()[:16]
    return "\n".join(parts), fps


if __name__ == "__main__":
    import sys
    print(translate_files(sys.argv[1] if len(sys.argv) > 1 else "/repo/src/dateutil")[0])
