"""tzshared.py — ONE ZONE OBJECT, MANY CALLS (C08 range zones: tzrange / tzstr; C17: _tzicalvtz).

A zone object answers as a function of its constructor arguments and the query (C08.range_answers_pure; C17.cache_transparent for
the one piece of state that exists, the ten-entry `_find_comp` cache).  Three streams check that on the implementation:

  history(...)         the SAME object through a long history (> 10 distinct lookups, repeats, lookups that raise — year 9999 /
                       year 1 overflow of a rule —, then earlier years again); every answer (or exception kind) is compared with
                       the answer of a FRESH object built from the same arguments for that one query
  threads(...)         two threads on the same object, pre-empted at every statement of the given methods (`sys.settrace` line
                       events whose `self` is the object, exactly one thread runnable at a time, `_cache_lock` replaced by a
                       cooperative lock that reports "blocked" instead of blocking); every schedule's answers are compared with the
                       fresh-object answers
  audit_shared_state() AST audit of tzrange / tzstr / tzrangebase / _tzicalvtz (+ tzlocal): any attribute of `self` written outside
                       `__init__` other than the two cache lists, any global / nonlocal / store through a non-local name, any
                       caching decorator is a broken correspondence (the models have no such state)
"""
import ast, os, sys, threading, datetime


# ------------------------------------------------------------------------------------------------ AST audit
AUDITED = {"tz/tz.py": {"tzrange", "tzstr", "_tzicalvtz", "_tzicalvtzcomp", "tzlocal"}, "tz/_common.py": {"tzrangebase", "_tzinfo"}}
ALLOWED_WRITES = {("_tzicalvtz", "_find_comp", "_cachedate"), ("_tzicalvtz", "_find_comp", "_cachecomp")}
MUTATORS = {"append", "insert", "pop", "extend", "remove", "clear", "update", "setdefault", "popitem", "sort", "reverse", "add", "discard",
            "__setitem__", "__delitem__", "__setattr__"}
KNOWN_DECORATORS = {"tzname_in_python2", "_validate_fromutc_inputs", "property", "staticmethod", "classmethod"}
INIT_LIKE = {"__init__", "__new__"}


def _is_self_attr(n):
    return isinstance(n, ast.Attribute) and isinstance(n.value, ast.Name) and n.value.id == "self"


def _root_self_attr(n):
    """self.X, self.X[...], self.X.y ...  -> X"""
    while isinstance(n, (ast.Subscript, ast.Attribute)):
        if _is_self_attr(n):
            return n.attr
        n = n.value
    return None


def audit_shared_state(repo):
    """-> sorted list of 'file:Class.method:what' sites that hold state across calls"""
    sites = []
    src = os.path.join(repo, "src", "dateutil")
    for rel, classes in AUDITED.items():
        tree = ast.parse(open(os.path.join(src, rel)).read())
        for cls in [n for n in ast.walk(tree) if isinstance(n, ast.ClassDef) and n.name in classes]:
            for item in cls.body:
                if isinstance(item, (ast.Assign, ast.AnnAssign)):
                    # class-level mutable containers are shared by every instance
                    v = item.value
                    if isinstance(v, (ast.Dict, ast.List, ast.Set, ast.Call)) and not (isinstance(v, ast.Call) and isinstance(v.func, ast.Attribute)
                                                                                         and v.func.attr == "__reduce__"):
                        names = [t.id for t in (item.targets if isinstance(item, ast.Assign) else [item.target]) if isinstance(t, ast.Name)]
                        sites.append("%s:%s:class-level %s" % (rel, cls.name, ",".join(names)))
                if not isinstance(item, ast.FunctionDef):
                    continue
                fn = item
                for d in fn.decorator_list:
                    dn = d.id if isinstance(d, ast.Name) else (d.attr if isinstance(d, ast.Attribute) else
                                                               (d.func.id if isinstance(d, ast.Call) and isinstance(d.func, ast.Name) else
                                                                (d.func.attr if isinstance(d, ast.Call) and isinstance(d.func, ast.Attribute) else "?")))
                    if dn not in KNOWN_DECORATORS:
                        sites.append("%s:%s.%s:decorator %s" % (rel, cls.name, fn.name, dn))
                if fn.name in INIT_LIKE:
                    continue
                local = {a.arg for a in fn.args.args + fn.args.kwonlyargs} | ({fn.args.vararg.arg} if fn.args.vararg else set()) | \
                    ({fn.args.kwarg.arg} if fn.args.kwarg else set())
                for n in ast.walk(fn):
                    if isinstance(n, ast.Name) and isinstance(n.ctx, ast.Store):
                        local.add(n.id)
                for n in ast.walk(fn):
                    if isinstance(n, (ast.Global, ast.Nonlocal)):
                        sites.append("%s:%s.%s:%s %s" % (rel, cls.name, fn.name, type(n).__name__.lower(), ",".join(n.names)))
                    targets = []
                    if isinstance(n, ast.Assign): targets = n.targets
                    elif isinstance(n, (ast.AugAssign, ast.AnnAssign)): targets = [n.target]
                    elif isinstance(n, ast.Delete): targets = n.targets
                    for t in targets:
                        for el in (t.elts if isinstance(t, (ast.Tuple, ast.List)) else [t]):
                            a = _root_self_attr(el)
                            if a is not None:
                                if (cls.name, fn.name, a) not in ALLOWED_WRITES:
                                    sites.append("%s:%s.%s:write self.%s" % (rel, cls.name, fn.name, a))
                            elif isinstance(el, (ast.Attribute, ast.Subscript)):
                                r = el
                                while isinstance(r, (ast.Attribute, ast.Subscript)):
                                    r = r.value
                                if isinstance(r, ast.Name) and r.id not in local and r.id != "self":
                                    sites.append("%s:%s.%s:store through non-local %s" % (rel, cls.name, fn.name, r.id))
                                elif isinstance(r, ast.Name) and r.id in local and r.id not in ("self",) and isinstance(el, ast.Attribute) \
                                        and r.id in {a.arg for a in fn.args.args}:
                                    pass        # attribute of an argument object (e.g. dt): not state of the zone
                    if isinstance(n, ast.Call) and isinstance(n.func, ast.Attribute) and n.func.attr in MUTATORS:
                        a = _root_self_attr(n.func.value)
                        if a is not None and (cls.name, fn.name, a) not in ALLOWED_WRITES:
                            sites.append("%s:%s.%s:mutate self.%s.%s()" % (rel, cls.name, fn.name, a, n.func.attr))
                        r = n.func.value
                        while isinstance(r, (ast.Attribute, ast.Subscript)):
                            r = r.value
                        if a is None and isinstance(r, ast.Name) and r.id not in local and r.id != "self":
                            sites.append("%s:%s.%s:mutate non-local %s.%s()" % (rel, cls.name, fn.name, r.id, n.func.attr))
                    if isinstance(n, ast.Call) and isinstance(n.func, ast.Name) and n.func.id in ("setattr", "delattr") and n.args \
                            and isinstance(n.args[0], ast.Name) and n.args[0].id == "self":
                        sites.append("%s:%s.%s:%s(self, ...)" % (rel, cls.name, fn.name, n.func.id))
                    if isinstance(n, ast.Attribute) and n.attr == "__dict__" and isinstance(n.value, ast.Name) and n.value.id == "self":
                        sites.append("%s:%s.%s:self.__dict__" % (rel, cls.name, fn.name))
    return sorted(set(sites))


def run_audit(ctx, classes_prefix=None):
    repo = os.environ.get("DATEUTIL_REPO", "/repo")
    sites = audit_shared_state(repo)
    if classes_prefix:
        sites = [s for s in sites if any((":" + c + ".") in s or (":" + c + ":") in s for c in classes_prefix)]
    ctx.count("shared_state_sites_outside_cache", len(sites))
    for s in sites:
        ctx.mismatch("shared-state-audit", s, "no attribute written outside __init__ (the models are pure functions of the constructor "
                     "arguments and the query; _tzicalvtz: the two cache lists only)", "the implementation keeps state across calls here")
    return sites


# ------------------------------------------------------------------------------------------------ queries
def exc(ex):
    return "!" + type(ex).__name__


def ask(z, q):
    """q = (kind, payload...) -> canonical answer string (or '!ExceptionKind')"""
    kind = q[0]
    try:
        if kind == "wall":
            _, dt, fold = q
            d = dt.replace(tzinfo=z, fold=fold)
            return "%s|%s|%s" % (d.utcoffset(), d.dst(), d.tzname())
        if kind == "off":
            _, dt, fold = q
            return str(dt.replace(tzinfo=z, fold=fold).utcoffset())
        if kind == "utc":
            _, dt = q
            b = z.fromutc(dt.replace(tzinfo=z))
            return "%s|%d|%s" % (b.replace(tzinfo=None).isoformat(), b.fold, b.utcoffset())
        if kind == "trans":
            r = z.transitions(q[1])
            return "None" if r is None else "%s,%s" % (r[0].isoformat(), r[1].isoformat())
        if kind == "amb":
            return str(z.is_ambiguous(q[1]))
        if kind in ("ambg", "exists"):      # PEP 495 classification through the public helpers
            from dateutil import tz as _tz
            return str((_tz.datetime_ambiguous if kind == "ambg" else _tz.datetime_exists)(q[1], z))
        if kind == "resolve":       # tz.resolve_imaginary on the datetime attached to the zone (wt-tzfile: C05's shared-object streams)
            from dateutil import tz as _tz
            _, dt, fold = q
            r = _tz.resolve_imaginary(dt.replace(tzinfo=z, fold=fold))
            return "%s|%d" % (r.replace(tzinfo=None).isoformat(), r.fold)
        if kind == "comp":          # _tzicalvtz: which component
            _, dt, fold = q
            return str(z._comps.index(z._find_comp(dt.replace(tzinfo=z, fold=fold))))
    except Exception as ex:
        return exc(ex)
    raise ValueError(kind)


def qkey(q):
    return "%s %s" % (q[0], " ".join(x.isoformat() if hasattr(x, "isoformat") else str(x) for x in q[1:]))


def qwire(q):
    return [q[0]] + [x.isoformat() if hasattr(x, "isoformat") else x for x in q[1:]]


def qparse(w):
    return tuple([w[0]] + [datetime.datetime.fromisoformat(x) if isinstance(x, str) else x for x in w[1:]])


def replay_history(shared, fresh, wire):
    """-> True when every answer of the one object equals the fresh object's (the property holds on this history)"""
    ok = True
    for n, w in enumerate(wire):
        q = qparse(w)
        got, want = ask(shared, q), ask(fresh(), q)
        if got != want:
            print("lookup %d %s: the object with the history answers %s, a fresh one %s" % (n, qkey(q), got, want))
            ok = False
            break
    return ok


def replay_threads(make_shared, fresh, funcs, lock_attr, case):
    warm = [qparse(w) for w in case["warm_wire"]]
    jobs = [[qparse(w) for w in qs] for qs in case["jobs_wire"]]
    obj = make_shared()
    for q in warm:
        ask(obj, q)
    first, n = case["first"], case["prefix"]
    res, trace, done = run_schedule(obj, funcs, lock_attr, jobs, [(first, n), (1 - first, None), (first, None)])
    want = [[ask(fresh(), q) for q in qs] for qs in jobs]
    print("schedule: thread %d runs %d statements, thread %d runs to its end, then everything finishes" % (first, n, 1 - first))
    print("answers %r; a fresh object gives %r; all threads finished: %s" % (res, want, done))
    return done and res == want


def history(ctx, label, shared, fresh, queries, case):
    """run `queries` in order on the one object `shared`; each answer must equal the answer of `fresh()` (a new object) to that query"""
    for n, q in enumerate(queries):
        got = ask(shared, q)
        want = ask(fresh(), q)
        ctx.case((label, case.get("zone"), n, qkey(q)), nontrivial=True)
        if got != want:
            c = dict(case); c.update({"kind": "history", "stream": label, "position": n, "query": qkey(q),
                                      "history_wire": [qwire(x) for x in queries[:n + 1]]})
            ctx.violation("%s: after %d earlier lookups on the same object %s gives %s; a fresh object of the same definition gives %s"
                          % (label, n, qkey(q), got, want), c, None)
            return False
    ctx.count("history_streams_" + label)
    return True


# ------------------------------------------------------------------------------------------------ two threads, statement granularity
class Killed(BaseException):
    pass


class CoopLock(object):
    def __init__(self, sched):
        self.s = sched
        self.owner = None

    def acquire(self, *a, **kw):
        k = self.s.me()
        if k is None:                 # not a scheduled thread (set-up code)
            self.owner = -1
            return True
        while self.owner is not None:
            self.s.pause(k, "B")
        self.owner = k
        return True

    def release(self):
        if self.owner is None:
            raise RuntimeError("release unlocked lock")
        self.owner = None

    def locked(self):
        return self.owner is not None

    def __enter__(self):
        self.acquire()
        return self

    def __exit__(self, *a):
        self.release()
        return False


class Sched(object):
    def __init__(self, obj, funcs, lock_attr=None):
        self.obj = obj
        self.codes = set(f.__code__ for f in funcs)
        self.go, self.back, self.state, self.threads, self.results = [], [], [], [], []
        self.idx = {}
        self.killed = False
        self.lock = None
        if lock_attr and hasattr(obj, lock_attr):
            self.orig_lock = getattr(obj, lock_attr)
            self.lock = CoopLock(self)
            setattr(obj, lock_attr, self.lock)
            self.lock_attr = lock_attr

    def restore(self):
        if self.lock is not None:
            setattr(self.obj, self.lock_attr, self.orig_lock)

    def me(self):
        return self.idx.get(threading.get_ident())

    def pause(self, k, st):
        if self.killed:
            raise Killed()
        self.state[k] = st
        self.back[k].release()
        self.go[k].acquire()
        if self.killed:
            raise Killed()

    def _global(self, frame, event, arg):
        if frame.f_code in self.codes and frame.f_locals.get("self") is self.obj:
            return self._line
        return None

    def _line(self, frame, event, arg):
        if event == "line":
            self.pause(self.me(), "%s:%d" % (frame.f_code.co_name, frame.f_lineno - frame.f_code.co_firstlineno))
        return self._line

    def add(self, fn):
        k = len(self.threads)
        self.go.append(threading.Lock()); self.go[k].acquire()
        self.back.append(threading.Lock()); self.back[k].acquire()
        self.state.append("new"); self.results.append(None)

        def body():
            self.idx[threading.get_ident()] = k
            try:
                self.pause(k, "start")
                sys.settrace(self._global)
                try:
                    self.results[k] = fn()
                finally:
                    sys.settrace(None)
            except Killed:
                pass
            self.state[k] = "done"
            self.back[k].release()
        t = threading.Thread(target=body, daemon=True)
        self.threads.append(t)
        t.start()
        self.back[k].acquire()
        return k

    def step(self, k):
        self.go[k].release()
        if not self.back[k].acquire(timeout=30):
            raise InfraTimeout("scheduled thread %d did not reach its next statement within 30 s" % k)
        return self.state[k]

    def done(self, k):
        return self.state[k] == "done"

    def run_seg(self, k, n, trace):
        prog = False
        while n is None or n > 0:
            if self.done(k):
                break
            st = self.step(k)
            trace.append("%d@%s" % (k, st))
            if st == "B":
                break
            prog = True
            if n is not None:
                n -= 1
        return prog

    def finish_all(self, trace):
        for _ in range(len(self.threads) + 2):
            prog = False
            for k in range(len(self.threads)):
                prog = self.run_seg(k, None, trace) or prog
            if not prog:
                break

    def kill(self):
        self.killed = True
        for k, t in enumerate(self.threads):
            if not self.done(k):
                self.go[k].release()
        for t in self.threads:
            t.join(5)


try:
    from vlib import DriverError as _Infra
except Exception:      # pragma: no cover
    _Infra = Exception


class InfraTimeout(_Infra):
    pass


def run_schedule(obj, funcs, lock_attr, jobs, segments):
    """jobs: list of query lists (one per thread); -> (results per thread, trace, all_done)"""
    s = Sched(obj, funcs, lock_attr)
    try:
        for qs in jobs:
            s.add((lambda qs: lambda: [ask(obj, q) for q in qs])(qs))
        trace = []
        for k, n in segments:
            s.run_seg(k, n, trace)
        s.finish_all(trace)
        done = all(s.done(k) for k in range(len(jobs)))
        res = list(s.results)
        s.kill()
        return res, trace, done
    finally:
        s.restore()


def threads(ctx, label, make_shared, fresh, funcs, lock_attr, warm, jobs, case, max_prefix=60):
    """every two-thread schedule of the shape  A runs n statements | B runs to its end (or until blocked) | everything finishes,
    for n = 1.. and for both roles; `make_shared()` builds the object (it is rebuilt and re-warmed with `warm` for every schedule)"""
    want = [[ask(fresh(), q) for q in qs] for qs in jobs]
    runs = 0
    for first in (0, 1):
        n = 1
        while n <= max_prefix:
            obj = make_shared()
            for q in warm:
                ask(obj, q)
            res, trace, done = run_schedule(obj, funcs, lock_attr, jobs, [(first, n), (1 - first, None), (first, None)])
            runs += 1
            ctx.case((label, case.get("zone"), first, n), nontrivial=True)
            if not done:
                c = dict(case); c.update({"kind": "threads", "stream": label, "first": first, "prefix": n, "trace": trace[-30:]})
                ctx.violation("%s: a thread never finished under the schedule (deadlock)" % label, c, None)
                return False
            if res != want:
                c = dict(case); c.update({"kind": "threads", "stream": label, "first": first, "prefix": n, "trace": trace[-40:],
                                          "jobs_wire": [[qwire(q) for q in qs] for qs in jobs], "warm_wire": [qwire(q) for q in warm]})
                ctx.violation("%s: thread %d pre-empted after %d statements (at %s): answers %r, a fresh object gives %r"
                              % (label, first, n, trace[n - 1] if len(trace) >= n else "?", res, want), c, None)
                return False
            # stop when the first thread finished within its prefix (longer prefixes are the same schedule)
            if sum(1 for t in trace[:n] if t.startswith("%d@" % first)) < n or any(t == "%d@done" % first for t in trace[:n]):
                break
            n += 1
    ctx.count("thread_schedules_" + label, runs)
    return True


# ------------------------------------------------------------------------------------------------ C04: offsets as WRITTEN in a VTIMEZONE
STATED_STD = [-12600, -34200, -16200, -9000, -17762, -9015, -3599, -45, 20700, 34200, 12345, -12345, -37800, 0, 3600, -18000]


def ical_stated_offsets(ctx):
    """C04, last clause, for tzical zones: the offset (and abbreviation) reported for a converted datetime are those WRITTEN in the
    definition for the component in force.  Definitions with negative non-whole-hour and with-seconds TZOFFSETFROM / TZOFFSETTO values;
    the expected offset is the generator's own integer (never read back through tzical._parse_offset), the component in force is
    decided from the generator's rules and those integers."""
    from props import c17
    from dateutil import tz
    import warnings
    rng = ctx.subrng("ical-stated-offsets")
    for k in range(ctx.budget(16, 300)):
        spec = c17.gen_spec(rng)
        std = STATED_STD[k % len(STATED_STD)] if k < 2 * len(STATED_STD) else rng.choice(STATED_STD) + rng.choice([0, 0, 1, -1, 60, -61])
        save = spec["dst"] - spec["std"]
        spec = dict(spec, std=std, dst=std + save)
        text = c17.vtimezone(spec, rng if k % 2 else None, order=k % 2)
        stated = {"SSS": std, "DDD": std + save}
        try:
            with warnings.catch_warnings():
                warnings.simplefilter("ignore")
                z = c17.load(text).get()
        except Exception as ex:
            ctx.case(("ical-stated", text))
            ctx.violation("tzical rejects a well-formed VTIMEZONE with offsets %s / %s: %s" % (c17.off4(std), c17.off4(std + save), type(ex).__name__),
                          {"kind": "ical-stated-offset", "phase": "load", "std": std, "dst": std + save}, text)
            continue
        ctx.count("ical_stated_offset_zones")
        if std < 0 and std % 3600:
            ctx.count("ical_stated_offset_zones_negative_non_whole_hour")
        if std % 60:
            ctx.count("ical_stated_offset_zones_with_seconds")
        ok = True
        for y in (2016, 2021):
            a, b = c17.transitions_utc(spec, y)           # UTC instants of the start and end of daylight time, from the generator's integers
            lo, hi = min(a, b), max(a, b)
            probes = [a + datetime.timedelta(seconds=d) for d in (-86400, -1, 0, 1, 3600, 86400)] + \
                     [b + datetime.timedelta(seconds=d) for d in (-86400, -1, 0, 1, 3600, 86400)] + \
                     [lo + (hi - lo) / 2, datetime.datetime(y, 1, 15, 12), datetime.datetime(y, 7, 15, 12)]
            for u in probes:
                u = u.replace(microsecond=0)
                indst = (a <= u < b) if a < b else not (b <= u < a)
                want_off = stated["DDD"] if indst else stated["SSS"]
                want_name = "DDD" if indst else "SSS"
                ctx.case(("ical-stated", std, save, y, u.isoformat()), nontrivial=True)
                with warnings.catch_warnings():
                    warnings.simplefilter("ignore")
                    loc = u.replace(tzinfo=tz.UTC).astimezone(z)
                got_off = loc.utcoffset().total_seconds()
                wall_ok = loc.replace(tzinfo=None) == u + datetime.timedelta(seconds=want_off)
                if got_off != want_off or loc.tzname() != want_name or not wall_ok:
                    ctx.violation("tzical zone at %sZ reports offset %+d s (%s), wall %s; the definition states TZOFFSETTO:%s (%+d s, %s) for the "
                                  "component in force" % (u.isoformat(), got_off, loc.tzname(), loc.replace(tzinfo=None).isoformat(),
                                                          c17.off4(want_off), want_off, want_name),
                                  {"kind": "ical-stated-offset", "phase": "lookup", "std": std, "dst": std + save, "utc": u.isoformat(),
                                   "expected_offset": want_off, "expected_abbr": want_name}, text)
                    ok = False
                    break
            if not ok:
                break


def replay_ical_stated(payload):
    from props import c17
    from dateutil import tz
    c = payload["violation"]["case"]
    text = payload["violation"]["detail"]
    print(payload["violation"]["what"])
    z = c17.load(text).get()
    u = datetime.datetime.fromisoformat(c["utc"])
    loc = u.replace(tzinfo=tz.UTC).astimezone(z)
    print("now: offset %s abbr %s; stated %+d s %s" % (loc.utcoffset(), loc.tzname(), c["expected_offset"], c["expected_abbr"]))
    return loc.utcoffset().total_seconds() == c["expected_offset"] and loc.tzname() == c["expected_abbr"]
