#!/usr/bin/env python3
"""
translate_gettz.py — Python AST -> Lean 4 for "GzPy": the name-resolution cascade of `tz.gettz`
(`__get_gettz.GettzFunc.nocache`, src/dateutil/tz/tz.py) as a FUNCTION of an abstract environment
(`Gettz.Env`, Model/GettzResolve.lean): the TZ variable, TZFILES / TZPATHS, `os.path.isfile`, the outcome of
`tzfile(path)`, `time.tzname`, the vendored database and whether `tzstr.instance(name)` accepts the string.

    Generated/GettzNocache.lean :  Gen.nocache (e : Gettz.Env) (name : Option String) : Gettz.R
                                   + one recursive function per `for` loop (Gen.nocache_loop<k>)

Values: `name` is `Option String` until the test `name is None or name in (…)` has been passed, a `String` after it;
`tz` is a `Gettz.Resolution` (`.none` = None; zone objects are truthy); paths are `String`s; `c` a `Char`.
Named primitives (GzPy.*, Model/GzPy.lean — parameters of the model, not dateutil code): `os.environ["TZ"]` (KeyError),
`os.path.isabs / join / isfile`, `tzfile(p)` with its exception kinds, `tzlocal()`, `UTC`, `tzstr.instance(s)` (ValueError),
`get_zonefile_instance().get(s)`, `s.startswith(":")`, `s[1:]`, `s.replace(' ', '_')`, `c in "0123456789"`,
`x in (…)` on strings, `x in time.tzname`, the module global `tzwin` (None off Windows: decided statically).

Statements: assignment, `if / else`, `return`, `for x in <list>:` with `break` / `continue` / `else` (a recursive function
over the list returning (broke?, the variables the loop assigns that live outside it)), `try: … except (A, B): pass` around
a primitive that can raise (the handler list is compared with the kinds the primitive raises: a kind that is not listed
propagates), `try: … except KeyError: pass`, `from … import …` (skipped), a `try` whose body cannot raise for a `str`
(`name.startswith`: the TypeError handler for bytes is dead code for str names and is skipped).  Anything else raises
Untranslatable (a broken tie).
"""
import ast, os, hashlib
from translate import Untranslatable, find_function

LEAN_TY = {"OptStr": "Option String", "Str": "String", "Res": "Gettz.Resolution", "Char": "Char"}
TZFILE_KINDS = {"IOError": "osError", "OSError": "osError", "ValueError": "valueError"}     # struct.error is the fourth kind


class Tr:
    def __init__(self):
        self.types = {}
        self.loops = []          # generated auxiliary functions (text)
        self.nloops = 0
        self.loop_names = {}
        self.tmp = 0

    def fresh(self, p):
        self.tmp += 1
        return "%s_%d" % (p, self.tmp)

    # ---------------------------------------------------------------- expressions (pure)
    def E(self, e):
        if isinstance(e, ast.Constant):
            if e.value is None: return "GzPy.noneRes", "NoneLit"
            if isinstance(e.value, str): return '"%s"' % e.value, "Str"
            raise Untranslatable("constant %r" % (e.value,))
        if isinstance(e, ast.Name):
            if e.id in self.types: return e.id, self.types[e.id]
            if e.id == "UTC": return "Gettz.Resolution.utc", "Res"
            if e.id == "TZFILES": return "e.tzfiles", "StrList"
            if e.id == "TZPATHS": return "e.tzpaths", "StrList"
            raise Untranslatable("name %s" % e.id)
        if isinstance(e, ast.Subscript) and isinstance(e.slice, ast.Slice) and e.slice.upper is None and e.slice.step is None \
                and isinstance(e.slice.lower, ast.Constant) and e.slice.lower.value == 1:
            v, t = self.E(e.value)
            if t != "Str": raise Untranslatable("slice of %s" % t)
            return "(GzPy.dropFirst %s)" % v, "Str"
        if isinstance(e, ast.Call):
            f = ast.unparse(e.func)
            args = [self.E(a) for a in e.args]
            tys = [t for _, t in args]
            if f == "os.path.isabs" and tys == ["Str"]: return "(Gettz.isabs %s = true)" % args[0][0], "Prop"
            if f == "os.path.isfile" and tys == ["Str"]: return "(e.isfile %s = true)" % args[0][0], "Prop"
            if f == "os.path.join" and tys == ["Str", "Str"]: return "(Gettz.join %s %s)" % (args[0][0], args[1][0]), "Str"
            if f == "tzlocal" and not args: return "Gettz.Resolution.localZone", "Res"
            if f == "get_zonefile_instance().get" and tys == ["Str"]: return "(GzPy.vendoredGet e %s)" % args[0][0], "Res"
            if isinstance(e.func, ast.Attribute) and e.func.attr == "startswith" and len(args) == 1 \
                    and isinstance(e.args[0], ast.Constant) and e.args[0].value == ":":
                v, t = self.E(e.func.value)
                if t != "Str": raise Untranslatable("startswith on %s" % t)
                return "(GzPy.startsWithColon %s = true)" % v, "Prop"
            if isinstance(e.func, ast.Attribute) and e.func.attr == "replace" and len(args) == 2 \
                    and [getattr(a, "value", None) for a in e.args] == [" ", "_"]:
                v, t = self.E(e.func.value)
                if t != "Str": raise Untranslatable("replace on %s" % t)
                return "(Gettz.underscore %s)" % v, "Str"
            raise Untranslatable("call %s(%s)" % (f, ", ".join(tys)))
        raise Untranslatable("expression %s" % ast.unparse(e)[:40])

    # ---------------------------------------------------------------- conditions -> Prop text
    def C(self, e):
        if isinstance(e, ast.BoolOp):
            parts = [self.C(v) for v in e.values]
            return "(" + (" ∧ " if isinstance(e.op, ast.And) else " ∨ ").join(parts) + ")"
        if isinstance(e, ast.UnaryOp) and isinstance(e.op, ast.Not):
            return "(¬ %s)" % self.C(e.operand)
        if isinstance(e, ast.Compare) and len(e.ops) == 1:
            op, r = e.ops[0], e.comparators[0]
            if isinstance(op, (ast.Is, ast.IsNot)) and isinstance(r, ast.Constant) and r.value is None:
                if isinstance(e.left, ast.Name) and e.left.id == "tzwin":
                    return "False" if isinstance(op, ast.IsNot) else "True"      # module global: None off Windows
                v, t = self.E(e.left)
                if t == "OptStr": return "(%s %s none)" % (v, "=" if isinstance(op, ast.Is) else "≠")
                if t == "Str": return "False" if isinstance(op, ast.Is) else "True"
                if t == "Res": return "(%s %s Gettz.Resolution.none)" % (v, "=" if isinstance(op, ast.Is) else "≠")
                raise Untranslatable("is None on %s" % t)
            if isinstance(op, (ast.In, ast.NotIn)):
                v, t = self.E(e.left)
                neg = isinstance(op, ast.NotIn)
                if isinstance(r, ast.Tuple) and all(isinstance(x, ast.Constant) and isinstance(x.value, str) for x in r.elts):
                    lits = "[%s]" % ", ".join('"%s"' % x.value for x in r.elts)
                    if t == "Str": c = "(%s ∈ %s)" % (v, lits)
                    elif t == "OptStr": c = "(GzPy.optIn %s %s)" % (v, lits)
                    else: raise Untranslatable("in on %s" % t)
                elif isinstance(r, ast.Constant) and r.value == "0123456789" and t == "Char":
                    c = "(GzPy.isDigit %s = true)" % v
                elif ast.unparse(r) == "time.tzname" and t == "Str":
                    c = "(%s ∈ e.tzname)" % v
                else:
                    raise Untranslatable("in %s" % ast.unparse(r)[:30])
                return "(¬ %s)" % c if neg else c
            raise Untranslatable("comparison %s" % ast.unparse(e)[:40])
        v, t = self.E(e)
        if t == "Prop": return v
        if t == "OptStr": return "(GzPy.truthyName %s)" % v
        if t == "Str": return "(%s ≠ \"\")" % v
        if t == "Res": return "(%s ≠ Gettz.Resolution.none)" % v          # zone objects are truthy
        raise Untranslatable("truthiness of %s" % t)

    # ---------------------------------------------------------------- statements
    # ctx: dict(after=callable -> text, brk=callable|None, cont=callable|None)
    def B(self, stmts, ctx):
        if not stmts:
            return ctx["after"]()
        s, rest = stmts[0], stmts[1:]
        nxt = lambda: self.B(rest, ctx)
        if isinstance(s, (ast.ImportFrom, ast.Import)):
            return nxt()
        if isinstance(s, ast.Expr) and isinstance(s.value, ast.Constant):
            return nxt()
        if isinstance(s, ast.Pass):
            return nxt()
        if isinstance(s, ast.Return):
            if ctx.get("brk") is not None or ctx.get("inloop"): raise Untranslatable("return inside a loop")
            v, t = self.E(s.value)
            if t != "Res": raise Untranslatable("return of %s" % t)
            return ".ok %s" % v
        if isinstance(s, ast.Break):
            return ctx["brk"]()
        if isinstance(s, ast.Continue):
            return ctx["cont"]()
        if isinstance(s, ast.Assign) and len(s.targets) == 1 and isinstance(s.targets[0], ast.Name):
            n = s.targets[0].id
            return self.assign(n, s.value, nxt)
        if isinstance(s, ast.If):
            return self.if_(s, rest, ctx)
        if isinstance(s, ast.Try):
            return self.try_(s, rest, ctx)
        if isinstance(s, ast.For):
            return self.for_(s, rest, ctx)
        raise Untranslatable("statement %s" % type(s).__name__)

    def assign(self, n, value, nxt, on_error=None):
        """`n = value`; value may be a raising primitive (then on_error maps exception kinds to continuations)"""
        if isinstance(value, ast.Call) and ast.unparse(value.func) in ("tzfile", "tzstr.instance", "tzwin"):
            f = ast.unparse(value.func)
            a, ta = self.E(value.args[0])
            if ta != "Str": raise Untranslatable("%s(%s)" % (f, ta))
            saved = dict(self.types)
            self.types[n] = "Res"
            ok = nxt()
            self.types = saved
            if f == "tzfile":
                handled = (on_error or {}).get("kinds", set())
                arms = []
                for kind in ("osError", "valueError", "structError"):
                    if kind in handled: arms.append("| .error .%s => %s" % (kind, on_error["handler"]()))
                    else: arms.append("| .error .%s => .error .%s" % (kind, kind))
                return "(match GzPy.tzfile e %s with\n| .ok %s =>\n%s\n%s)" % (a, n, ok, "\n".join(arms))
            if f == "tzstr.instance":
                if on_error and "ValueError" in on_error.get("raw", set()):
                    return "(match GzPy.tzstrInstance e %s with\n| some %s =>\n%s\n| none =>\n%s)" % (a, n, ok, on_error["handler"]())
                raise Untranslatable("tzstr.instance outside try/except ValueError")
            raise Untranslatable("call %s" % f)
        if isinstance(value, ast.Subscript) and ast.unparse(value) == "os.environ['TZ']":
            if not (on_error and "KeyError" in on_error.get("raw", set())): raise Untranslatable("os.environ[...] outside try/except KeyError")
            if self.types.get(n) != "OptStr": raise Untranslatable("TZ assigned to %s" % self.types.get(n))
            ok = nxt()
            return "(match e.tzVar with\n| some v_ =>\nlet %s := some v_\n%s\n| none =>\n%s)" % (n, ok, on_error["handler"]())
        v, t = self.E(value)
        if t == "NoneLit":
            if self.types.get(n, "Res") != "Res": raise Untranslatable("None assigned to %s" % self.types.get(n))
            v, t = "Gettz.Resolution.none", "Res"
        old = self.types.get(n)
        if old is not None and old != t: raise Untranslatable("%s: %s reassigned as %s" % (n, old, t))
        self.types[n] = t
        return "let %s := %s\n%s" % (n, v, nxt())

    def if_(self, s, rest, ctx):
        # `name is None or name in (…)`: the else branch knows that name is a str
        t = s.test
        cont = lambda: self.B(rest, ctx)
        if isinstance(t, ast.BoolOp) and isinstance(t.op, ast.Or) and len(t.values) == 2 and isinstance(t.values[0], ast.Compare) \
                and isinstance(t.values[0].ops[0], ast.Is) and isinstance(t.values[0].left, ast.Name) \
                and self.types.get(t.values[0].left.id) == "OptStr":
            n = t.values[0].left.id
            saved = dict(self.types)
            thn = self.B(s.body + rest, ctx)
            self.types = dict(saved); self.types[n] = "Str"
            c2 = self.C(t.values[1])
            thn2 = None
            els = self.B(s.orelse + rest, ctx)
            self.types = dict(saved)
            # the then-branch is emitted twice (name None / name one of the literals); it does not read `name` as a str
            self.types[n] = "Str"
            thn_str = self.B(s.body + rest, ctx)
            self.types = dict(saved)
            return "(match %s with\n| none =>\n%s\n| some %s =>\n(if %s then\n%s\nelse\n%s))" % (n, thn, n, c2, thn_str, els)
        c = self.C(t)
        saved = dict(self.types)
        if c not in ("False", "True") and not self.escapes(s.body + s.orelse) and rest:
            # no break / continue / return inside: the two branches JOIN (their assigned variables are returned) and the
            # rest of the block is emitted once
            vs = [v for v in self.assigned(s.body + s.orelse) if v in saved or (v in self.assigned(s.body) and v in self.assigned(s.orelse))]
            vs = [v for v in vs if v in self.reads(rest) or v in saved]
            tup = lambda: ".ok (%s)" % (", ".join(vs) if len(vs) != 1 else vs[0]) if vs else ".ok ()"
            jctx = dict(after=tup, brk=None, cont=None, inloop=ctx.get("inloop") or ctx.get("brk") is not None)
            thn = self.B(s.body, jctx)
            ty_then = dict(self.types)
            self.types = dict(saved)
            els = self.B(s.orelse, jctx)
            for k, v in ty_then.items():
                self.types.setdefault(k, v)
            self.types = {k: v for k, v in self.types.items() if k in saved or k in vs}
            j = self.fresh("j")
            unpack = "".join("let %s := %s%s\n" % (v, j, ((".2" * i + (".1" if i < len(vs) - 1 else "")) if len(vs) > 1 else ""))
                             for i, v in enumerate(vs))
            return "(match (if %s then\n%s\nelse\n%s : Gettz.LoopJ _) with\n| .error x_ => .error x_\n| .ok %s =>\n%s%s)" % (
                c, thn, els, j, unpack, self.B(rest, ctx))
        if c == "False":
            return self.B(s.orelse + rest, ctx)
        if c == "True":
            return self.B(s.body + rest, ctx)
        thn = self.B(s.body + rest, ctx)
        ty_then = dict(self.types)
        self.types = dict(saved)
        els = self.B(s.orelse + rest, ctx)
        self.types = dict(saved)
        for k, v in ty_then.items():
            self.types.setdefault(k, v)
        return "(if %s then\n%s\nelse\n%s)" % (c, thn, els)

    def try_(self, s, rest, ctx):
        if len(s.handlers) != 1 or s.orelse or s.finalbody: raise Untranslatable("try statement shape")
        h = s.handlers[0]
        names = [ast.unparse(x) for x in (h.type.elts if isinstance(h.type, ast.Tuple) else [h.type])]
        # the raising primitive must be the first statement of the body: `x = <primitive>(…)`
        first = s.body[0]
        raising = isinstance(first, ast.Assign) and (
            (isinstance(first.value, ast.Call) and ast.unparse(first.value.func) in ("tzfile", "tzstr.instance", "tzwin"))
            or ast.unparse(first.value) == "os.environ['TZ']")
        if not raising:
            # a body that cannot raise for the declared types: `if name.startswith(":"): name = name[1:]` on a str
            if names == ["TypeError"] and len(s.body) == 1 and isinstance(first, ast.If) \
                    and "startswith" in ast.unparse(first.test):
                return self.B(s.body + rest, ctx)
            raise Untranslatable("try around %s" % ast.unparse(first)[:40])
        if not (len(h.body) == 1 and isinstance(h.body[0], ast.Pass)) and not (
                len(h.body) == 1 and isinstance(h.body[0], ast.Assign) and ast.unparse(h.body[0]) == "tz = None"):
            raise Untranslatable("exception handler body")
        saved = dict(self.types)

        def handler():
            self.types = dict(saved)
            return self.B(list(h.body) + rest, ctx)
        kinds = {TZFILE_KINDS[n] for n in names if n in TZFILE_KINDS}
        n = first.targets[0].id
        body_rest = s.body[1:]
        out = self.assign(n, first.value, lambda: self.B(body_rest + rest, ctx),
                          on_error={"kinds": kinds, "raw": set(names), "handler": handler})
        self.types = dict(saved); self.types.setdefault(n, "Res")
        return out

    def escapes(self, stmts):
        """a break / continue that leaves THIS block (not one of a nested loop), or a return"""
        def walk(node, in_loop):
            for ch in ast.iter_child_nodes(node):
                if isinstance(ch, ast.Return): return True
                if isinstance(ch, (ast.Break, ast.Continue)) and not in_loop: return True
                if isinstance(ch, ast.For):
                    if any(walk(x, True) for x in ch.body) or any(walk(x, in_loop) for x in ch.orelse): return True
                    continue
                if walk(ch, in_loop): return True
            return False
        return any(isinstance(x, (ast.Return,)) or (isinstance(x, (ast.Break, ast.Continue))) or walk(x, False)
                   if not isinstance(x, ast.For) else (any(walk(y, True) for y in x.body) or any(walk(y, False) or isinstance(y, (ast.Break, ast.Continue, ast.Return)) for y in x.orelse))
                   for x in stmts)

    def assigned(self, stmts):
        out = []
        for s in stmts:
            for node in ast.walk(s):
                if isinstance(node, ast.Assign):
                    for t in node.targets:
                        if isinstance(t, ast.Name) and t.id not in out: out.append(t.id)
                if isinstance(node, ast.For) and isinstance(node.target, ast.Name) and node.target.id not in out:
                    out.append(node.target.id)
        return out

    def reads(self, stmts):
        return {n.id for s in stmts for n in ast.walk(s) if isinstance(n, ast.Name)}

    def for_(self, s, rest, ctx):
        if not isinstance(s.target, ast.Name): raise Untranslatable("loop target")
        var = s.target.id
        it, tit = self.E(s.iter)
        if tit == "StrList": elem, lst = "Str", it
        elif tit == "Str": elem, lst = "Char", "%s.toList" % it
        else: raise Untranslatable("loop over %s" % tit)
        fname = "nocache_loop@@"
        # loop state: variables assigned in the loop that exist outside it
        state = [v for v in self.assigned(s.body) if v in self.types and v != var]
        free = sorted(v for v in self.reads(s.body) if v in self.types and v not in state and v != var)
        saved = dict(self.types)
        st_tuple = lambda: ("(" + ", ".join(state) + ")") if len(state) != 1 else state[0]
        st_ty = " × ".join(LEAN_TY[saved[v]] for v in state) if state else "Unit"
        self.types[var] = elem
        rec = "%s e %s rest_ %s" % (fname, " ".join(free), " ".join(state))
        body_ctx = dict(after=lambda: rec, brk=lambda: ".ok (true, %s)" % (st_tuple() if state else "()"), cont=lambda: rec,
                        inloop=True)
        body = self.B(s.body, body_ctx)
        self.types = dict(saved)
        params = " ".join("(%s : %s)" % (v, LEAN_TY[saved[v]]) for v in free)
        sparams = " ".join("(%s : %s)" % (v, LEAN_TY[saved[v]]) for v in state)
        ety = "String" if elem == "Str" else "Char"
        text = (
            "/-- the `for %s in %s:` loop of `nocache` (line %d): (left by `break`?, the variables it assigns) -/\n"
            "def %s (e : Gettz.Env) %s : List %s → %s → Gettz.LoopR (%s)\n  | [], %s => .ok (false, %s)\n  | %s :: rest_, %s =>\n%s\n"
            % (var, ast.unparse(s.iter), s.lineno, fname, params, ety,
               " → ".join(LEAN_TY[saved[v]] for v in state) if state else "Unit", st_ty,
               ", ".join(state) if state else "_", st_tuple() if state else "()", var, ", ".join(state) if state else "_", indent(body, 2)))
        import re
        key = re.sub(r"_(\d+)\b", "_N", text)
        if key in self.loop_names:                        # (same loop, different temporaries)
            text = None
            fname = self.loop_names[key]
        elif text in self.loop_names:                       # the same loop reached through a duplicated continuation
            fname = self.loop_names[text]
        else:
            self.nloops += 1
            fname = "nocache_loop%d" % self.nloops
            self.loop_names[key] = fname
            self.loops.append(text.replace("nocache_loop@@", fname))
        # after the loop
        r = self.fresh("l")
        unpack = "".join("let %s := %s.2%s\n" % (v, r, (".2" * i + (".1" if i < len(state) - 1 else "")) if len(state) > 1 else "")
                         for i, v in enumerate(state))
        after_break = self.B(rest, ctx)
        after_else = self.B(s.orelse + rest, ctx) if s.orelse else after_break
        return "(match %s e %s %s %s with\n| .error x_ => .error x_\n| .ok %s =>\n%s(if %s.1 = true then\n%s\nelse\n%s))" % (
            fname, " ".join(free), lst, " ".join(state) if state else "()", r, unpack, r, after_break, after_else)


def indent(text, base=1):
    out, depth = [], base
    for line in text.split("\n"):
        s = line.strip()
        if not s: continue
        lead = len(s) - len(s.lstrip(")"))
        out.append("  " * max(base, depth - lead) + s)
        depth += s.count("(") - s.count(")")
    return "\n".join(out)


def translate_module(src_root):
    path = os.path.join(src_root, "tz", "tz.py")
    tree = ast.parse(open(path).read())
    fn = find_function(tree, "__get_gettz.GettzFunc.nocache")
    if [a.arg for a in fn.args.args] != ["name"] or [ast.unparse(d) for d in fn.decorator_list] != ["staticmethod"]:
        raise Untranslatable("signature of nocache")
    tr = Tr()
    tr.types["name"] = "OptStr"
    body = tr.B(fn.body, dict(after=lambda: (_ for _ in ()).throw(Untranslatable("control falls off the end")), brk=None, cont=None))
    text = "\n".join(tr.loops)
    text += "/-- translated from `tz/tz.py:__get_gettz.GettzFunc.nocache` -/\ndef nocache (e : Gettz.Env) (name : Option String) : Gettz.R :=\n%s\n" % indent(body)
    return text, {"GettzFunc.nocache/nocache": hashlib.sha256(ast.dump(fn).encode()).hexdigest()[:16]}


if __name__ == "__main__":
    import sys
    print(translate_module(os.path.join(sys.argv[1] if len(sys.argv) > 1 else "/repo", "src", "dateutil"))[0])
