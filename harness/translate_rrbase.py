"""
translate_rrbase.py — the base-class half of src/dateutil/rrule.py -> Lean values (C10, C11, C12).

(1) query methods of `rrulebase` (`__contains__`, `before`, `after`, `xafter`, `between`, `count`, `__getitem__`)
    -> `Generated/RRBaseQueries.lean`, values of the types of Model/ScanPy.lean: loop bodies statement by statement.
Every construct outside the fragment raises `Untranslatable`.  Names are bound strictly: the loop variable, the parameters
(`item`, `dt`, `after`, `before`, `count`, `inc`), the locals (`last`, `started`, `l`, `n`, `gen`, `comp`).
"""
import ast, os, hashlib
from translate import Untranslatable

CMP = {ast.Eq: ".eq", ast.Gt: ".gt", ast.GtE: ".ge", ast.Lt: ".lt", ast.LtE: ".le"}
PARS = ("item", "dt", "after", "before")


def U(node, why=""):
    text = ast.unparse(node) if isinstance(node, ast.AST) else str(node)
    return Untranslatable("rrbase: %s`%s` (line %s)" % (why + " " if why else "", text.split("\n")[0][:100], getattr(node, "lineno", "?")))


def strip_doc(body):
    body = list(body)
    if body and isinstance(body[0], ast.Expr) and isinstance(body[0].value, ast.Constant) and isinstance(body[0].value.value, str):
        body = body[1:]
    return body


def is_name(n, ident):
    return isinstance(n, ast.Name) and n.id == ident


def is_self_attr(n, attr):
    return isinstance(n, ast.Attribute) and is_name(n.value, "self") and n.attr == attr


def find_method(tree, cls, name):
    for node in tree.body:
        if isinstance(node, ast.ClassDef) and node.name == cls:
            for m in node.body:
                if isinstance(m, ast.FunctionDef) and m.name == name:
                    return m
    raise Untranslatable("rrbase: %s.%s not found" % (cls, name))


def fp(node):
    return hashlib.sha256(ast.dump(node).encode()).hexdigest()[:16]


# ------------------------------------------------------------------ loops

class Loop:
    def __init__(self, var):
        self.var = var

    def cond(self, e):
        if isinstance(e, ast.Compare) and len(e.ops) == 1 and is_name(e.left, self.var) and type(e.ops[0]) in CMP \
                and isinstance(e.comparators[0], ast.Name) and e.comparators[0].id in PARS:
            return "(.cmp %s .%s)" % (CMP[type(e.ops[0])], e.comparators[0].id)
        if isinstance(e, ast.UnaryOp) and isinstance(e.op, ast.Not) and is_name(e.operand, "started"):
            return ".notStarted"
        if isinstance(e, ast.Call) and is_name(e.func, "comp") and len(e.args) == 2 and not e.keywords \
                and is_name(e.args[0], self.var) and is_name(e.args[1], "dt"):
            return ".comp"
        if isinstance(e, ast.Compare) and len(e.ops) == 1 and isinstance(e.ops[0], ast.IsNot) and is_name(e.left, "count") \
                and isinstance(e.comparators[0], ast.Constant) and e.comparators[0].value is None:
            return ".countNotNone"
        if isinstance(e, ast.Compare) and len(e.ops) == 1 and isinstance(e.ops[0], ast.Gt) and is_name(e.left, "n") and is_name(e.comparators[0], "count"):
            return ".nGtCount"
        raise U(e, "condition")

    def stmt(self, s):
        if isinstance(s, ast.If):
            return ".ifElse %s %s %s" % (self.cond(s.test), self.block(s.body), self.block(s.orelse))
        if isinstance(s, ast.Break):
            return ".brk"
        if isinstance(s, ast.Return):
            if isinstance(s.value, ast.Constant) and s.value.value is True:
                return ".retTrue"
            if isinstance(s.value, ast.Constant) and s.value.value is False:
                return ".retFalse"
            if is_name(s.value, self.var):
                return ".retVar"
            raise U(s, "return")
        if isinstance(s, ast.Assign) and len(s.targets) == 1:
            if is_name(s.targets[0], "last") and is_name(s.value, self.var):
                return ".setLast"
            if is_name(s.targets[0], "started") and isinstance(s.value, ast.Constant) and s.value.value is True:
                return ".setStarted"
            raise U(s, "assignment")
        if isinstance(s, ast.AugAssign) and is_name(s.target, "n") and isinstance(s.op, ast.Add) and isinstance(s.value, ast.Constant) and s.value.value == 1:
            return ".incN"
        if isinstance(s, ast.Expr):
            v = s.value
            if isinstance(v, ast.Call) and isinstance(v.func, ast.Attribute) and v.func.attr == "append" and is_name(v.func.value, "l") \
                    and len(v.args) == 1 and is_name(v.args[0], self.var) and not v.keywords:
                return ".appendVar"
            if isinstance(v, ast.Yield) and is_name(v.value, self.var):
                return ".yieldVar"
        raise U(s, "statement")

    def block(self, stmts):
        return "[" + ", ".join(self.stmt(s) for s in stmts) + "]"


def for_loop(s, over):
    """`for <v> in <over>: body` -> Lean list of statements"""
    if not (isinstance(s, ast.For) and isinstance(s.target, ast.Name) and not s.orelse):
        raise U(s, "for loop expected")
    ok = is_name(s.iter, over) if over != "self" else is_name(s.iter, "self")
    if not ok:
        raise U(s.iter, "loop over %s expected" % over)
    return Loop(s.target.id).block(s.body)


def is_source_select(s):
    """if self._cache_complete: gen = self._cache / else: gen = self"""
    return (isinstance(s, ast.If) and is_self_attr(s.test, "_cache_complete") and len(s.body) == 1 and len(s.orelse) == 1
            and isinstance(s.body[0], ast.Assign) and is_name(s.body[0].targets[0], "gen") and is_self_attr(s.body[0].value, "_cache")
            and isinstance(s.orelse[0], ast.Assign) and is_name(s.orelse[0].targets[0], "gen") and is_name(s.orelse[0].value, "self"))


def const_assign(s, name, pred):
    return isinstance(s, ast.Assign) and len(s.targets) == 1 and is_name(s.targets[0], name) and pred(s.value)


def is_const(v, val):
    return isinstance(v, ast.Constant) and v.value is val or (isinstance(v, ast.Constant) and not isinstance(val, bool) and val is not None and v.value == val and type(v.value) is type(val))


def inc_split(s, over="gen"):
    if not (isinstance(s, ast.If) and is_name(s.test, "inc") and len(s.body) == 1 and len(s.orelse) == 1):
        raise U(s, "`if inc:` split expected")
    return ".ifInc %s %s" % (for_loop(s.body[0], over), for_loop(s.orelse[0], over))


def lam_cmp(s):
    """comp = lambda dc, dtc: dc <op> dtc"""
    if not (isinstance(s, ast.Assign) and is_name(s.targets[0], "comp") and isinstance(s.value, ast.Lambda)):
        raise U(s, "comp lambda expected")
    lam = s.value
    names = [a.arg for a in lam.args.args]
    b = lam.body
    if len(names) != 2 or not (isinstance(b, ast.Compare) and len(b.ops) == 1 and type(b.ops[0]) in CMP and is_name(b.left, names[0]) and is_name(b.comparators[0], names[1])):
        raise U(s, "comp lambda")
    return CMP[type(b.ops[0])]


def method_value(name, source, body, ret, extra=""):
    return "def rrbase_%s : ScanPy.Method :=\n  { source := %s,%s\n    body := %s,\n    ret := %s }\n" % (name, source, extra, body, ret)


def t_before(fn):
    b = strip_doc(fn.body)
    if [a.arg for a in fn.args.args] != ["self", "dt", "inc"] or len(b) != 4 or not is_source_select(b[0]) \
            or not const_assign(b[1], "last", lambda v: is_const(v, None)) or not (isinstance(b[3], ast.Return) and is_name(b[3].value, "last")):
        raise U(fn, "before: shape")
    return method_value("before", ".select", inc_split(b[2]), ".last")


def t_after(fn):
    b = strip_doc(fn.body)
    if [a.arg for a in fn.args.args] != ["self", "dt", "inc"] or len(b) != 3 or not is_source_select(b[0]) \
            or not (isinstance(b[2], ast.Return) and is_const(b[2].value, None)):
        raise U(fn, "after: shape")
    return method_value("after", ".select", inc_split(b[1]), ".none_")


def t_between(fn):
    b = strip_doc(fn.body)
    if [a.arg for a in fn.args.args][:4] != ["self", "after", "before", "inc"] or len(b) != 5 or not is_source_select(b[0]) \
            or not const_assign(b[1], "started", lambda v: is_const(v, False)) \
            or not const_assign(b[2], "l", lambda v: isinstance(v, ast.List) and not v.elts) \
            or not (isinstance(b[4], ast.Return) and is_name(b[4].value, "l")):
        raise U(fn, "between: shape")
    return method_value("between", ".select", inc_split(b[3]), ".l")


def t_xafter(fn):
    b = strip_doc(fn.body)
    if [a.arg for a in fn.args.args] != ["self", "dt", "count", "inc"] or len(b) != 4 or not is_source_select(b[0]) \
            or not (isinstance(b[1], ast.If) and is_name(b[1].test, "inc") and len(b[1].body) == 1 and len(b[1].orelse) == 1) \
            or not const_assign(b[2], "n", lambda v: is_const(v, 0)):
        raise U(fn, "xafter: shape")
    ci, ce = lam_cmp(b[1].body[0]), lam_cmp(b[1].orelse[0])
    return method_value("xafter", ".select", ".loop " + for_loop(b[3], "gen"), ".generator", "\n    compInc := %s, compExc := %s," % (ci, ce))


def t_contains(fn):
    b = strip_doc(fn.body)
    ok = ([a.arg for a in fn.args.args] == ["self", "item"] and len(b) == 2 and isinstance(b[0], ast.If) and is_self_attr(b[0].test, "_cache_complete")
          and len(b[0].body) == 1 and isinstance(b[0].body[0], ast.Return) and ast.unparse(b[0].body[0].value) == "item in self._cache"
          and len(b[0].orelse) == 1 and isinstance(b[1], ast.Return) and is_const(b[1].value, False))
    if not ok:
        raise U(fn, "__contains__: shape")
    return method_value("contains", ".returnIn", ".loop " + for_loop(b[0].orelse[0], "self"), ".false_")


def t_count(fn):
    b = strip_doc(fn.body)
    if [a.arg for a in fn.args.args] != ["self"] or len(b) != 2 or not isinstance(b[0], ast.If) or b[0].orelse:
        raise U(fn, "count: shape")
    test = ast.unparse(b[0].test) == "self._len is None"
    body = b[0].body
    drains = (len(body) == 1 and isinstance(body[0], ast.For) and is_name(body[0].iter, "self") and len(body[0].body) == 1
              and isinstance(body[0].body[0], ast.Pass) and not body[0].orelse)
    ret = isinstance(b[1], ast.Return) and is_self_attr(b[1].value, "_len")
    if not (test and drains and ret):
        raise U(fn, "count: statements")
    return "def rrbase_count : ScanPy.CountProg :=\n  { testLenNone := true, drains := true, returnsLen := true }\n"


def t_getitem(fn):
    b = strip_doc(fn.body)
    if [a.arg for a in fn.args.args] != ["self", "item"] or len(b) != 1 or not isinstance(b[0], ast.If):
        raise U(fn, "__getitem__: shape")
    top = b[0]
    if not (is_self_attr(top.test, "_cache_complete") and len(top.body) == 1 and isinstance(top.body[0], ast.Return)
            and ast.unparse(top.body[0].value) == "self._cache[item]" and len(top.orelse) == 1 and isinstance(top.orelse[0], ast.If)):
        raise U(top, "__getitem__: fast path")
    sl = top.orelse[0]
    if ast.unparse(sl.test) != "isinstance(item, slice)" or len(sl.body) != 1 or not isinstance(sl.body[0], ast.If) or len(sl.orelse) != 1:
        raise U(sl, "__getitem__: slice branch")
    lp = sl.body[0]
    if not (isinstance(lp.test, ast.BoolOp) and isinstance(lp.test.op, ast.Or)):
        raise U(lp.test, "__getitem__: list-path condition")
    conds = []
    for v in lp.test.values:
        ok = (isinstance(v, ast.BoolOp) and isinstance(v.op, ast.And) and len(v.values) == 2 and isinstance(v.values[1], ast.Compare)
              and len(v.values[1].ops) == 1 and type(v.values[1].ops[0]) in CMP and isinstance(v.values[1].comparators[0], ast.Constant)
              and isinstance(v.values[1].comparators[0].value, int) and isinstance(v.values[1].left, ast.Attribute) and is_name(v.values[1].left.value, "item")
              and v.values[1].left.attr in ("start", "stop", "step")
              and ast.unparse(v.values[0]) == "item.%s is not None" % v.values[1].left.attr)
        if not ok:
            raise U(v, "__getitem__: list-path disjunct")
        conds.append("(.%s, %s, %d)" % (v.values[1].left.attr, CMP[type(v.values[1].ops[0])], v.values[1].comparators[0].value))
    if not (len(lp.body) == 1 and isinstance(lp.body[0], ast.Return) and ast.unparse(lp.body[0].value) == "list(iter(self))[item]"):
        raise U(lp, "__getitem__: list path")
    els = lp.orelse
    if len(els) != 2 or not isinstance(els[0], ast.Assign) or not isinstance(els[1], ast.Return):
        raise U(lp, "__getitem__: islice path")
    asg = els[0]
    tnames = [t.id for t in asg.targets[0].elts] if isinstance(asg.targets[0], ast.Tuple) else None
    g = asg.value
    okg = (isinstance(g, ast.GeneratorExp) and ast.unparse(g.elt) == "x if x is None else min(x, sys.maxsize)" and len(g.generators) == 1
           and is_name(g.generators[0].target, "x") and isinstance(g.generators[0].iter, ast.Tuple) and not g.generators[0].ifs)
    if not okg or tnames is None:
        raise U(asg, "__getitem__: clamp")
    fields = []
    for e in g.generators[0].iter.elts:
        if not (isinstance(e, ast.Attribute) and is_name(e.value, "item") and e.attr in ("start", "stop", "step")):
            raise U(e, "__getitem__: clamp field")
        fields.append(e.attr)
    bind = dict(zip(tnames, fields))
    call = els[1].value
    okc = (isinstance(call, ast.Call) and is_name(call.func, "list") and len(call.args) == 1 and isinstance(call.args[0], ast.Call)
           and ast.unparse(call.args[0].func) == "itertools.islice" and len(call.args[0].args) == 4 and is_name(call.args[0].args[0], "self")
           and all(isinstance(a, ast.Name) and a.id in bind for a in call.args[0].args[1:]) and not call.args[0].keywords)
    if not okc:
        raise U(els[1], "__getitem__: islice call")
    isl = [bind[a.id] for a in call.args[0].args[1:]]
    nn = sl.orelse[0]
    okn = (isinstance(nn, ast.If) and isinstance(nn.test, ast.Compare) and is_name(nn.test.left, "item") and len(nn.test.ops) == 1 and type(nn.test.ops[0]) in CMP
           and isinstance(nn.test.comparators[0], ast.Constant) and isinstance(nn.test.comparators[0].value, int) and len(nn.body) == 3 and len(nn.orelse) == 1)
    if not okn:
        raise U(nn, "__getitem__: index branch")
    s1, s2, s3 = nn.body
    if ast.unparse(s1) != "gen = iter(self)" or not isinstance(s2, ast.Try) or ast.unparse(s3) != "return res":
        raise U(nn, "__getitem__: next() loop")
    okt = (len(s2.body) == 1 and isinstance(s2.body[0], ast.For) and is_name(s2.body[0].target, "i") and not s2.orelse and not s2.finalbody
           and len(s2.handlers) == 1 and ast.unparse(s2.handlers[0].type) == "StopIteration" and len(s2.handlers[0].body) == 1
           and ast.unparse(s2.handlers[0].body[0]) == "raise IndexError")
    if not okt:
        raise U(s2, "__getitem__: try")
    f = s2.body[0]
    rng = f.iter
    okr = (isinstance(rng, ast.Call) and is_name(rng.func, "range") and len(rng.args) == 1 and isinstance(rng.args[0], ast.BinOp) and isinstance(rng.args[0].op, ast.Add)
           and is_name(rng.args[0].left, "item") and isinstance(rng.args[0].right, ast.Constant) and isinstance(rng.args[0].right.value, int)
           and len(f.body) == 1 and ast.unparse(f.body[0]) == "res = advance_iterator(gen)")
    if not okr:
        raise U(f, "__getitem__: range loop")
    neg = nn.orelse[0]
    if not (isinstance(neg, ast.Return) and ast.unparse(neg.value) == "list(iter(self))[item]"):
        raise U(neg, "__getitem__: negative index")
    return ("def rrbase_getitem : ScanPy.GetitemProg :=\n  { fastIndexes := true,\n    listPathConds := [%s],\n    clampsToMaxsize := true,\n    isliceArgs := [%s],\n"
            "    nonnegCmp := %s, nonnegBound := %d, rangeExtra := %d,\n    stopIsIndexError := true, negativeUsesList := true }\n"
            % (", ".join(conds), ", ".join("." + x for x in isl), CMP[type(nn.test.ops[0])], nn.test.comparators[0].value, rng.args[0].right.value))


QUERY_METHODS = [("__contains__", t_contains), ("before", t_before), ("after", t_after), ("xafter", t_xafter), ("between", t_between),
                 ("count", t_count), ("__getitem__", t_getitem)]


def translate_queries(srcdir):
    tree = ast.parse(open(os.path.join(srcdir, "rrule.py")).read())
    out, fps = [], {}
    for name, tr in QUERY_METHODS:
        fn = find_method(tree, "rrulebase", name)
        out.append("/-- translated from `rrule.py:rrulebase.%s` -/\n" % name + tr(fn))
        fps["rrulebase.%s" % name] = fp(fn)
    return "\n".join(out), fps


# ------------------------------------------------------------------ (3) _iter_cached as a statement program

# the statements of `_iter_cached` in the numbering of Model/Cache.lean (124 = the `def` line): the program counters.
# The real function is aligned to this listing by its TEXT; statements without a model line are FOLDED into the node before them
# and must be exactly the ones the vocabulary knows (`gen = None`, `if cache is self._cache:`, the `except Exception` handler).
MODEL_LISTING = [
    "def _iter_cached(self):", "i = 0", "gen = self._cache_gen", "cache = self._cache", "acquire = self._cache_lock.acquire",
    "release = self._cache_lock.release", "while gen:", "if i == len(cache):", "acquire()", "try:",
    "if self._cache_complete and cache is self._cache:",
    "break", "try:", "for j in range(10):", "cache.append(advance_iterator(gen))", "except StopIteration:",
    "self._cache_gen = None", "self._cache_complete = True", "break", "finally:", "release()", "yield cache[i]", "i += 1",
    "while i < len(cache):", "yield cache[i]", "i += 1"]


def _pc(line):
    return ".l%d" % line


class CFG:
    """nodes of `_iter_cached`: (pc, op, next, alt, exc).  Control flow from the nesting: a `break` inside the try/finally leaves
    through the `finally` (its `release()` node has alt = the statement after the loop); the end of a loop body returns to the loop test."""
    def __init__(self):
        self.nodes = []

    def emit(self, pc, op, nxt, alt=None, exc=None):
        extra = ""
        if alt is not None:
            extra += ", alt := %s" % alt
        if exc is not None:
            extra += ", exc := %s" % exc
        self.nodes.append("{ pc := %s, op := %s, next := %s%s }" % (pc, op, nxt, extra))


def translate_iter_cached(tree):
    fn = find_method(tree, "rrulebase", "_iter_cached")
    u = ast.unparse
    b = fn.body
    if len(b) != 7:
        raise U(fn, "_iter_cached: seven top-level statements expected")
    pro = [u(x) for x in b[:5]]
    if pro != ["i = 0", "gen = self._cache_gen", "cache = self._cache", "acquire = self._cache_lock.acquire", "release = self._cache_lock.release"]:
        raise U(fn, "_iter_cached: prologue")
    w1, w2 = b[5], b[6]
    if not (isinstance(w1, ast.While) and u(w1.test) == "gen" and not w1.orelse and len(w1.body) == 3):
        raise U(w1, "_iter_cached: `while gen:`")
    iff, y1, inc1 = w1.body
    if not (isinstance(iff, ast.If) and u(iff.test) == "i == len(cache)" and not iff.orelse and len(iff.body) == 2
            and u(iff.body[0]) == "acquire()" and isinstance(iff.body[1], ast.Try)):
        raise U(iff, "_iter_cached: fill test")
    tf = iff.body[1]
    if not (not tf.handlers and not tf.orelse and len(tf.finalbody) == 1 and u(tf.finalbody[0]) == "release()" and len(tf.body) == 2):
        raise U(tf, "_iter_cached: try/finally")
    ifc, tfill = tf.body
    if not (isinstance(ifc, ast.If) and u(ifc.test) == "self._cache_complete and cache is self._cache" and not ifc.orelse
            and len(ifc.body) == 1 and isinstance(ifc.body[0], ast.Break)):
        raise U(ifc, "_iter_cached: completion test")
    if not (isinstance(tfill, ast.Try) and not tfill.orelse and not tfill.finalbody and len(tfill.body) == 1 and isinstance(tfill.body[0], ast.For)):
        raise U(tfill, "_iter_cached: fill try")
    fr = tfill.body[0]
    if not (u(fr.target) == "j" and isinstance(fr.iter, ast.Call) and u(fr.iter.func) == "range" and len(fr.iter.args) == 1
            and isinstance(fr.iter.args[0], ast.Constant) and isinstance(fr.iter.args[0].value, int) and not fr.orelse
            and len(fr.body) == 1 and u(fr.body[0]) == "cache.append(advance_iterator(gen))"):
        raise U(fr, "_iter_cached: fill loop")
    batch = fr.iter.args[0].value
    hs = tfill.handlers
    if not hs or u(hs[0].type) != "StopIteration":
        raise U(tfill, "_iter_cached: `except StopIteration` first")
    hb = [x for x in hs[0].body]
    # gen = None / if cache is self._cache: (self._cache_gen = None; self._cache_complete = True) / break
    guarded = (len(hb) == 3 and u(hb[0]) == "gen = None" and isinstance(hb[1], ast.If) and u(hb[1].test) == "cache is self._cache" and not hb[1].orelse
               and [u(x) for x in hb[1].body] == ["self._cache_gen = None", "self._cache_complete = True"] and isinstance(hb[2], ast.Break))
    if not guarded:
        raise U(hs[0], "_iter_cached: StopIteration handler")
    defers = False
    if len(hs) == 2:
        h2 = hs[1]
        defers = (u(h2.type) == "Exception" and len(h2.body) == 1 and isinstance(h2.body[0], ast.If) and u(h2.body[0].test) == "i == len(cache)"
                  and not h2.body[0].orelse and len(h2.body[0].body) == 1 and isinstance(h2.body[0].body[0], ast.Raise) and h2.body[0].body[0].exc is None)
        if not defers:
            raise U(h2, "_iter_cached: second handler")
    elif len(hs) != 1:
        raise U(tfill, "_iter_cached: handlers")
    if not (u(y1) == "yield cache[i]" and u(inc1) == "i += 1"):
        raise U(w1, "_iter_cached: yield / increment of the fill loop")
    if not (isinstance(w2, ast.While) and u(w2.test) == "i < len(cache)" and not w2.orelse and [u(x) for x in w2.body] == ["yield cache[i]", "i += 1"]):
        raise U(w2, "_iter_cached: tail loop")
    # program counters: the statements in source order, numbered like the model's listing
    order = [("i0", b[0]), ("gen", b[1]), ("cache", b[2]), ("acq", b[3]), ("rel", b[4]), ("w1", w1), ("iff", iff), ("acquire", iff.body[0]), ("try1", tf),
             ("ifc", ifc), ("brk1", ifc.body[0]), ("try2", tfill), ("for", fr), ("append", fr.body[0]), ("exstop", hs[0]),
             ("sgen", hb[1].body[0]), ("scomp", hb[1].body[1]), ("brk2", hb[2]), ("fin", None), ("release", tf.finalbody[0]), ("y1", y1), ("inc1", inc1),
             ("w2", w2), ("y2", w2.body[0]), ("inc2", w2.body[1])]
    L = {}
    line = 125
    prev = fn.lineno
    for name, node in order:
        L[name] = _pc(line)
        line += 1
    # source order must be increasing (the listing is the source order)
    seq = [n.lineno if n is not None and not isinstance(n, ast.ExceptHandler) else None for _, n in order]
    last = 0
    for (name, node), ln in zip(order, seq):
        if ln is not None:
            if ln <= last:
                raise U(node, "_iter_cached: statement order")
            last = ln
    c = CFG()
    after_loop = L["w2"]
    c.emit(L["i0"], ".setI0", L["gen"])
    c.emit(L["gen"], ".loadGen", L["cache"])
    c.emit(L["cache"], ".loadCache", L["acq"])
    c.emit(L["acq"], ".loadAcquire", L["rel"])
    c.emit(L["rel"], ".loadRelease", L["w1"])
    c.emit(L["w1"], ".whileGen", L["iff"], alt=after_loop)
    c.emit(L["iff"], ".ifNeedFill", L["acquire"], alt=L["y1"])
    c.emit(L["acquire"], ".acquire", L["try1"])
    c.emit(L["try1"], ".tryEnter", L["ifc"])
    c.emit(L["ifc"], ".ifCompleteOwn", L["brk1"], alt=L["try2"])
    c.emit(L["brk1"], ".brk", L["release"])                       # break inside try/finally: through the finally
    c.emit(L["try2"], ".tryFill", L["for"])
    c.emit(L["for"], ".forRange %d" % batch, L["append"], alt=L["release"])     # loop exhausted: end of the try body, into the finally
    c.emit(L["append"], ".appendNext %s" % ("true" if defers else "false"), L["for"], alt=L["exstop"], exc=L["release"])
    c.emit(L["exstop"], ".exceptStop true", L["sgen"])
    c.emit(L["sgen"], ".storeGenNone", L["scomp"])
    c.emit(L["scomp"], ".storeComplete", L["brk2"])
    c.emit(L["brk2"], ".brk", L["release"])
    c.emit(L["release"], ".release", L["y1"], alt=after_loop)      # normal exit: after the `if`; via break: after the loop
    c.emit(L["y1"], ".yieldFill", L["inc1"])
    c.emit(L["inc1"], ".incFill", L["w1"])
    c.emit(L["w2"], ".whileTail", L["y2"])
    c.emit(L["y2"], ".yieldTail", L["inc2"])
    c.emit(L["inc2"], ".incTail", L["w2"])
    text = "/-- translated from `rrule.py:rrulebase._iter_cached` -/\ndef iterCachedProgram : List CachePy.Node :=\n  [" + ",\n   ".join(c.nodes) + "]\n"
    return text, fp(fn)


def translate_invalidate(tree):
    fn = find_method(tree, "rrulebase", "_invalidate_cache")
    u = ast.unparse

    def st(s):
        t = u(s)
        if isinstance(s, ast.If) and u(s.test) == "self._cache is not None" and not s.orelse:
            return ".ifCached [%s]" % ", ".join(st(x) for x in s.body)
        if t == "self._cache = []":
            return ".newCache"
        if t == "self._cache_complete = False":
            return ".completeFalse"
        if t == "self._cache_gen = _restartable(self._iter)":
            return ".newGen true"
        if t == "self._cache_gen = self._iter()":
            return ".newGen false"
        if isinstance(s, ast.If) and u(s.test) == "self._cache_lock.locked()" and not s.orelse and [u(x) for x in s.body] == ["self._cache_lock.release()"]:
            return ".ifLockedRelease"
        if t == "self._generation += 1":
            return ".bumpGeneration"
        if t == "self._len = None":
            return ".lenNone"
        raise U(s, "_invalidate_cache: statement")
    text = "/-- translated from `rrule.py:rrulebase._invalidate_cache` -/\ndef invalidateProgram : List CachePy.IStmt :=\n  [%s]\n" % ", ".join(st(s) for s in strip_doc(fn.body))
    return text, fp(fn)


def translate_base_init(tree):
    fn = find_method(tree, "rrulebase", "__init__")
    u = ast.unparse
    if [a.arg for a in fn.args.args] != ["self", "cache"] or len(fn.args.defaults) != 1 or u(fn.args.defaults[0]) != "False":
        raise U(fn, "rrulebase.__init__: signature")

    def st(s):
        t = u(s)
        if isinstance(s, ast.If) and u(s.test) == "cache":
            return ".ifCacheArg [%s] [%s]" % (", ".join(st(x) for x in s.body), ", ".join(st(x) for x in s.orelse))
        table = {"self._generation = 0": ".generationZero", "self._cache = []": ".newCache", "self._cache_lock = _thread.allocate_lock()": ".allocLock",
                 "self._invalidate_cache()": ".callInvalidate", "self._cache = None": ".cacheNone", "self._cache_complete = False": ".completeFalse",
                 "self._len = None": ".lenNone"}
        if t in table:
            return table[t]
        raise U(s, "rrulebase.__init__: statement")
    text = "/-- translated from `rrule.py:rrulebase.__init__` -/\ndef baseInitProgram : List CachePy.IStmt :=\n  [%s]\n" % ", ".join(st(s) for s in strip_doc(fn.body))
    return text, fp(fn)


def translate_restartable(tree):
    cls = None
    for node in tree.body:
        if isinstance(node, ast.ClassDef) and node.name == "_restartable":
            cls = node
    if cls is None:
        raise Untranslatable("rrbase: class _restartable not found")
    u = ast.unparse
    meths = dict((m.name, m) for m in cls.body if isinstance(m, ast.FunctionDef))
    ini, nxt, it = meths.get("__init__"), meths.get("__next__"), meths.get("__iter__")
    if ini is None or nxt is None or it is None:
        raise Untranslatable("rrbase: _restartable methods")
    if [u(x) for x in strip_doc(ini.body)] != ["self._func = func", "self._gen = func()", "self._pos = 0"] or [a.arg for a in ini.args.args] != ["self", "func"]:
        raise U(ini, "_restartable.__init__")
    if [u(x) for x in strip_doc(it.body)] != ["return self"]:
        raise U(it, "_restartable.__iter__")
    b = strip_doc(nxt.body)
    ok = (len(b) == 3 and isinstance(b[0], ast.Try) and [u(x) for x in b[0].body] == ["item = advance_iterator(self._gen)"] and len(b[0].handlers) == 2
          and u(b[0].handlers[0].type) == "StopIteration" and [u(x) for x in b[0].handlers[0].body] == ["raise"]
          and u(b[0].handlers[1].type) == "BaseException"
          and [u(x) for x in b[0].handlers[1].body] == ["self._gen = itertools.islice(self._func(), self._pos, None)", "raise"]
          and not b[0].orelse and not b[0].finalbody and u(b[1]) == "self._pos += 1" and u(b[2]) == "return item")
    if not ok:
        raise U(nxt, "_restartable.__next__")
    text = ("/-- translated from `rrule.py:_restartable.__init__ / __iter__ / __next__` -/\ndef restartableProgram : CachePy.RestartProg :=\n"
            "  { initPosZero := true, advancesInTry := true, stopReraised := true, restartsAtPos := true, countsAfter := true, returnsItem := true }\n")
    return text, {"_restartable.__init__": fp(ini), "_restartable.__iter__": fp(it), "_restartable.__next__": fp(nxt)}


def translate_dunder_iter(tree):
    """`__iter__`: if self._cache_complete: return iter(self._cache) / elif self._cache is None: return self._iter() / else: return self._iter_cached()"""
    fn = find_method(tree, "rrulebase", "__iter__")
    u = ast.unparse
    b = strip_doc(fn.body)
    ok = (len(b) == 1 and isinstance(b[0], ast.If) and u(b[0].test) == "self._cache_complete" and [u(x) for x in b[0].body] == ["return iter(self._cache)"]
          and len(b[0].orelse) == 1 and isinstance(b[0].orelse[0], ast.If) and u(b[0].orelse[0].test) == "self._cache is None"
          and [u(x) for x in b[0].orelse[0].body] == ["return self._iter()"] and [u(x) for x in b[0].orelse[0].orelse] == ["return self._iter_cached()"])
    if not ok:
        raise U(fn, "__iter__")
    # model lines: 105 = def, 106 if, 107 return iter(cache), 108 elif, 109 return self._iter(), 110 else, 111 return self._iter_cached();
    # the generator object returned on line 111 starts at the first statement of `_iter_cached` (125); the list iterator is `listIter`
    nodes = ["{ pc := .l106, op := .ifComplete, next := .l107, alt := .l108 }",
             "{ pc := .l107, op := .retListIter, next := .listIter }",
             "{ pc := .l108, op := .ifCacheNone, next := .done, alt := .l111 }",
             "{ pc := .l111, op := .retIterCached, next := .l125 }"]
    return nodes, fp(fn)


def translate_cache(srcdir):
    tree = ast.parse(open(os.path.join(srcdir, "rrule.py")).read())
    t1, f1 = translate_iter_cached(tree)
    t2, f2 = translate_invalidate(tree)
    n0, f0 = translate_dunder_iter(tree)
    t1 = t1.replace("def iterCachedProgram : List CachePy.Node :=\n  [", "def iterCachedProgram : List CachePy.Node :=\n  [" + ",\n   ".join(n0) + ",\n   ", 1)
    t1 = t1.replace("translated from `rrule.py:rrulebase._iter_cached`", "translated from `rrule.py:rrulebase.__iter__` (the first four nodes) and `rrulebase._iter_cached`")
    t3, f3 = translate_base_init(tree)
    t4, f4 = translate_restartable(tree)
    fps = {"rrulebase.__iter__": f0, "rrulebase._iter_cached": f1, "rrulebase._invalidate_cache": f2, "rrulebase.__init__": f3}
    fps.update(f4)
    return t1 + "\n" + t2 + "\n" + t3 + "\n" + t4, fps


# ------------------------------------------------------------------ (2) rruleset._genitem and rruleset._iter

def find_genitem(tree):
    for node in tree.body:
        if isinstance(node, ast.ClassDef) and node.name == "rruleset":
            for m in node.body:
                if isinstance(m, ast.ClassDef) and m.name == "_genitem":
                    return m
    raise Untranslatable("rrbase: rruleset._genitem not found")


def translate_merge(srcdir):
    tree = ast.parse(open(os.path.join(srcdir, "rrule.py")).read())
    u = ast.unparse
    gi = find_genitem(tree)
    meths = dict((m.name, m) for m in gi.body if isinstance(m, ast.FunctionDef))
    fps = {}
    out = []
    # __init__
    fn = meths.get("__init__")
    if fn is None or [a.arg for a in fn.args.args] != ["self", "genlist", "gen"]:
        raise Untranslatable("rrbase: _genitem.__init__ signature")
    b = strip_doc(fn.body)
    ok = (len(b) == 3 and isinstance(b[0], ast.Try) and [u(x) for x in b[0].body] == ["self.dt = advance_iterator(gen)", "genlist.append(self)"]
          and len(b[0].handlers) == 1 and u(b[0].handlers[0].type) == "StopIteration" and [u(x) for x in b[0].handlers[0].body] == ["pass"]
          and not b[0].orelse and not b[0].finalbody and u(b[1]) == "self.genlist = genlist" and u(b[2]) == "self.gen = gen")
    if not ok:
        raise U(fn, "_genitem.__init__")
    out.append("/-- translated from `rrule.py:rruleset._genitem.__init__` -/\ndef genitemInit : MergePy.InitProg :=\n"
               "  { advancesInTry := true, appendsSelf := true, stopIsPass := true, keepsGenlist := true, keepsGen := true }\n")
    fps["_genitem.__init__"] = fp(fn)
    # __next__
    fn = meths.get("__next__")
    if fn is None or [a.arg for a in fn.args.args] != ["self"]:
        raise Untranslatable("rrbase: _genitem.__next__ signature")
    b = strip_doc(fn.body)
    ok = (len(b) == 1 and isinstance(b[0], ast.Try) and [u(x) for x in b[0].body] == ["self.dt = advance_iterator(self.gen)"]
          and len(b[0].handlers) == 1 and u(b[0].handlers[0].type) == "StopIteration" and not b[0].orelse and not b[0].finalbody
          and len(b[0].handlers[0].body) == 1 and isinstance(b[0].handlers[0].body[0], ast.If) and u(b[0].handlers[0].body[0].test) == "self.genlist[0] is self")
    if not ok:
        raise U(fn, "_genitem.__next__")

    def removal(stmts):
        t = [u(x) for x in stmts]
        if t == ["heapq.heappop(self.genlist)"]:
            return ".heappop"
        if t == ["self.genlist.remove(self)", "heapq.heapify(self.genlist)"]:
            return ".removeHeapify"
        raise U(stmts[0] if stmts else fn, "_genitem.__next__: removal")
    iff = b[0].handlers[0].body[0]
    out.append("/-- translated from `rrule.py:rruleset._genitem.__next__` -/\ndef genitemNext : MergePy.NextProg :=\n"
               "  { advancesInTry := true, ifTop := %s, otherwise := %s }\n" % (removal(iff.body), removal(iff.orelse)))
    fps["_genitem.__next__"] = fp(fn)
    # comparisons
    ops = {ast.Lt: ".lt", ast.Gt: ".gt", ast.Eq: ".eq", ast.NotEq: ".ne"}
    cm = {}
    for name in ("__lt__", "__gt__", "__eq__", "__ne__"):
        fn = meths.get(name)
        b = strip_doc(fn.body) if fn is not None else []
        ok = (fn is not None and [a.arg for a in fn.args.args] == ["self", "other"] and len(b) == 1 and isinstance(b[0], ast.Return)
              and isinstance(b[0].value, ast.Compare) and len(b[0].value.ops) == 1 and type(b[0].value.ops[0]) in ops
              and u(b[0].value.left) == "self.dt" and u(b[0].value.comparators[0]) == "other.dt")
        if not ok:
            raise Untranslatable("rrbase: _genitem.%s" % name)
        cm[name] = ops[type(b[0].value.ops[0])]
        fps["_genitem.%s" % name] = fp(fn)
    out.append("/-- translated from `rrule.py:rruleset._genitem.__lt__ / __gt__ / __eq__ / __ne__` -/\ndef genitemCmp : MergePy.CmpProg :=\n"
               "  { lt := %s, gt := %s, eq := %s, ne := %s }\n" % (cm["__lt__"], cm["__gt__"], cm["__eq__"], cm["__ne__"]))
    # _iter
    fn = find_method(tree, "rruleset", "_iter")
    b = strip_doc(fn.body)
    heaps = {"rlist": ".rlist", "exlist": ".exlist"}
    roles = {"_rdate": ".rdate", "_rrule": ".rrule", "_exdate": ".exdate", "_exrule": ".exrule"}
    items = {"ritem": ".ritem", "exitem": ".exitem"}

    def setup(s):
        t = u(s)
        if t == "generation = self._generation":
            return ".readGeneration"
        for h in heaps:
            if t == "%s = []" % h:
                return ".newList %s" % heaps[h]
            if t == "heapq.heapify(%s)" % h:
                return ".heapify %s" % heaps[h]
            for r in roles:
                if t == "self._genitem(%s, iter(self.%s))" % (h, r):
                    return ".genitemDates %s %s" % (heaps[h], roles[r])
                if isinstance(s, ast.For) and t == "for gen in [iter(x) for x in self.%s]:\n    self._genitem(%s, gen)" % (r, h):
                    return ".genitemRules %s %s" % (heaps[h], roles[r])
        for r in roles:
            if t == "self.%s.sort()" % r:
                return ".sortDates %s" % roles[r]
        if t == "lastdt = None":
            return ".lastNone"
        if t == "total = 0":
            return ".totalZero"
        raise U(s, "_iter: setup statement")

    def simple(s):
        t = u(s)
        for i in items:
            for h in heaps:
                if t == "%s = %s[0]" % (i, h):
                    return ".bindTop %s %s" % (items[i], heaps[h])
                if isinstance(s, ast.If) and t == "if %s and %s[0] is %s:\n    heapq.heapreplace(%s, %s)" % (h, h, i, h, i):
                    return ".ifTopIsReplace %s %s" % (heaps[h], items[i])
            if t == "advance_iterator(%s)" % i:
                return ".advance %s" % items[i]
        if t == "total += 1":
            return ".incTotal"
        if t == "yield ritem.dt":
            return ".yieldDt"
        if t == "lastdt = ritem.dt":
            return ".setLast"
        return None

    def simples(stmts):
        r = []
        for s in stmts:
            v = simple(s)
            if v is None:
                raise U(s, "_iter: statement")
            r.append(v)
        return "[" + ", ".join(r) + "]"

    def fresh(s):
        v = simple(s)
        if v is not None:
            return ".simple (%s)" % v
        if isinstance(s, ast.While) and u(s.test) == "exlist and exlist[0] < ritem" and not s.orelse:
            return ".whileBelow %s" % simples(s.body)
        if isinstance(s, ast.If) and u(s.test) == "not exlist or ritem != exlist[0]" and not s.orelse:
            return ".ifEmit %s" % simples(s.body)
        raise U(s, "_iter: statement")

    def main(s):
        v = simple(s)
        if v is not None:
            return ".simple (%s)" % v
        if isinstance(s, ast.If) and u(s.test) == "not lastdt or lastdt != ritem.dt" and not s.orelse:
            return ".ifFresh [%s]" % ", ".join(fresh(x) for x in s.body)
        raise U(s, "_iter: statement")
    k = next((j for j, s in enumerate(b) if isinstance(s, ast.While)), None)
    if k is None or k != len(b) - 2 or u(b[k].test) != "rlist" or b[k].orelse:
        raise U(fn, "_iter: `while rlist:` followed by the publication of _len expected")
    pub = b[-1]
    if not (isinstance(pub, ast.If) and u(pub.test) == "generation == self._generation" and not pub.orelse and [u(x) for x in pub.body] == ["self._len = total"]):
        raise U(pub, "_iter: publication of _len")
    out.append("/-- translated from `rrule.py:rruleset._iter` -/\ndef rsetIterProgram : MergePy.IterProg :=\n  { setup := [%s],\n    body := [%s],\n    publishesLenGuarded := true }\n"
               % (", ".join(setup(s) for s in b[:k]), ", ".join(main(s) for s in b[k].body)))
    fps["rruleset._iter"] = fp(fn)
    # the decorator and the four mutators, rruleset.__init__
    dec = None
    for node in tree.body:
        if isinstance(node, ast.FunctionDef) and node.name == "_invalidates_cache":
            dec = node
    if dec is None:
        raise Untranslatable("rrbase: _invalidates_cache not found")
    db = strip_doc(dec.body)
    okd = (len(db) == 2 and isinstance(db[0], ast.FunctionDef) and u(db[1]) == "return inner_func" and db[0].name == "inner_func"
           and [u(x) for x in db[0].decorator_list] == ["wraps(f)"])
    if not okd:
        raise U(dec, "_invalidates_cache")
    inner = [u(x) for x in strip_doc(db[0].body)]
    if inner == ["rv = f(self, *args, **kwargs)", "self._invalidate_cache()", "return rv"]:
        flags = "callsWrapped := true, thenInvalidates := true, returnsRv := true"
    elif inner == ["self._invalidate_cache()", "return f(self, *args, **kwargs)"]:
        # the wrapped method runs AFTER the invalidation: translated, and the obligation says why it is wrong
        flags = "callsWrapped := true, thenInvalidates := false, returnsRv := true, invalidatesBefore := true"
    elif inner == ["return f(self, *args, **kwargs)"]:
        flags = "callsWrapped := true, thenInvalidates := false, returnsRv := true"
    else:
        raise U(db[0], "_invalidates_cache: wrapper body")
    out.append("/-- translated from `rrule.py:_invalidates_cache` -/\ndef invalidatesDecorator : MergePy.DecoratorProg :=\n"
               "  { %s }\n" % flags)
    fps["_invalidates_cache"] = fp(dec)
    muts = []
    for name in ("rrule", "rdate", "exrule", "exdate"):
        fn = find_method(tree, "rruleset", name)
        b = strip_doc(fn.body)
        decos = [u(x) for x in fn.decorator_list]
        args = [a.arg for a in fn.args.args]
        okm = (len(args) == 2 and len(b) == 1 and isinstance(b[0], ast.Expr) and isinstance(b[0].value, ast.Call) and isinstance(b[0].value.func, ast.Attribute)
               and b[0].value.func.attr == "append" and isinstance(b[0].value.func.value, ast.Attribute) and u(b[0].value.func.value.value) == "self"
               and b[0].value.func.value.attr in roles and len(b[0].value.args) == 1 and u(b[0].value.args[0]) == args[1] and not b[0].value.keywords
               and decos in ([], ["_invalidates_cache"]))
        if not okm:
            raise U(fn, "rruleset.%s" % name)
        muts.append("{ role := .%s, appendsTo := %s, decorated := %s }" % (name, roles[b[0].value.func.value.attr], "true" if decos else "false"))
        fps["rruleset.%s" % name] = fp(fn)
    out.append("/-- translated from `rrule.py:rruleset.rrule / rdate / exrule / exdate` -/\ndef rsetMutators : List MergePy.MutatorProg :=\n  [%s]\n" % ",\n   ".join(muts))
    fn = find_method(tree, "rruleset", "__init__")
    b = [u(x) for x in strip_doc(fn.body)]
    if not b or b[0] != "super(rruleset, self).__init__(cache)" or [a.arg for a in fn.args.args] != ["self", "cache"]:
        raise U(fn, "rruleset.__init__")
    lists = []
    for t in b[1:]:
        hit = [r for r in roles if t == "self.%s = []" % r]
        if not hit:
            raise Untranslatable("rrbase: rruleset.__init__: `%s`" % t)
        lists.append(roles[hit[0]])
    out.append("/-- translated from `rrule.py:rruleset.__init__` -/\ndef rsetInit : MergePy.SetInitProg :=\n  { callsBaseInit := true, emptyLists := [%s] }\n" % ", ".join(lists))
    fps["rruleset.__init__"] = fp(fn)
    return "\n".join(out), fps


# (Generated module, Lean import, translator function)
MODULES = [("RRBaseQueries", "DateutilVerif.Model.ScanPy", "translate_queries"),
           ("RRBaseCache", "DateutilVerif.Model.CachePy", "translate_cache"),
           ("RSetMerge", "DateutilVerif.Model.MergePy", "translate_merge")]
