"""tzobjlib.py — per-run differential validation of the ObjPy translator (harness/translate_obj.py): the functions
re-translated from tz/tz.py into Generated/TzObjKernels.lean (driver ops `tzgen.ical.*`, `tzgen.str.*`,
`tzgen.range.init/eq`) against the METHODS of the implementation:
  tzical._parse_offset; _tzicalvtz._find_comp (with its two cache lists, compared entry by entry after a query
  sequence on a fresh zone) / utcoffset / dst on zones built directly from component objects with explicit onset
  lists (rruleset of rdates) and on parsed VTIMEZONEs; tzstr.__init__ / _delta; tzrange.__init__ / transitions / __eq__."""
import datetime, warnings
from vlib import hexs, ilist, exc_kind

US = 10 ** 6
DAY = 86400 * US


def us_of(dt):
    return (dt.toordinal() * 86400 + dt.hour * 3600 + dt.minute * 60 + dt.second) * US + dt.microsecond


def dt_of(us):
    return datetime.datetime.min + datetime.timedelta(microseconds=us - DAY)


def _kernels_ok(ctx):
    rep = (ctx.lean.gen_report.get("kernels") or {}).get("TzObjKernels") or {}
    if not rep.get("ok"):
        ctx.note("TzObjKernels not regenerated (%s): translated-function validation skipped" % rep.get("error"))
        return False
    return True


def _compare(ctx, reqs, exp, label):
    got = ctx.driver(reqs)
    for q, e, g in zip(reqs, exp, got):
        if e != g:
            ctx.mismatch(q.split()[0], q[:300], e[:400], g[:400])
        else:
            ctx.traces += 1
    ctx.count(label, len(reqs))


# ---------------------------------------------------------------------------------------------- C17

def _comp_str(c):
    return "-" if c is None else "%d/%d/%d" % (int(c.tzoffsetfrom.total_seconds()), int(c.tzoffsetto.total_seconds()), int(bool(c.isdst)))


def _td_us(td):
    return td // datetime.timedelta(microseconds=1)


def run_seq(z, queries):
    """the implementation's side of tzgen.ical.seq on a FRESH zone object"""
    outs = []
    for us, fold in queries:
        dt = dt_of(us).replace(tzinfo=z, fold=fold)
        try:
            c = z._find_comp(dt)
            o = _comp_str(c)
            for f in (z.utcoffset, z.dst):
                try:
                    o += ",%d" % _td_us(f(dt))
                except Exception as ex:
                    o += ",!" + exc_kind(ex)
            try:
                n = z.tzname(dt)
                o += "," + ("-" if n is None else n)
            except Exception as ex:
                o += ",!" + exc_kind(ex)
            outs.append(o)
        except Exception as ex:
            outs.append("!" + exc_kind(ex))
    cache = ",".join("%d:%d" % (us_of(d), f) for d, f in z._cachedate) + "|" + ",".join(_comp_str(c) for c in z._cachecomp)
    return "ok " + " ".join(outs) + " cache=" + cache


def synthetic_zone(rng):
    """a `_tzicalvtz` built from component objects with explicit onset lists"""
    from dateutil import tz, rrule
    n = rng.choice([1, 2, 2, 2, 3, 4])
    base = datetime.datetime(2000, 1, 1)
    comps, wire, points = [], [], []
    offs = [-18000, -14400, 0, 3600, 7200, 1800]
    for i in range(n):
        ofrom, oto = rng.choice(offs), rng.choice(offs)
        isdst = rng.random() < 0.5
        k = rng.choice([0, 1, 2, 5, 12])
        ons = sorted(set(base + datetime.timedelta(seconds=rng.randrange(0, 40 * 86400) // 1800 * 1800) for _ in range(k)))
        rs = rrule.rruleset()
        for o in ons:
            rs.rdate(o)
        comps.append(tz.tz._tzicalvtzcomp(ofrom, oto, isdst, tzname="%d/%d/%d" % (ofrom, oto, int(isdst)), rrule=rs))
        wire.append("%d,%d,%d,%s" % (ofrom, oto, int(isdst), ilist([us_of(o) // US for o in ons])))
        points += ons
    return (lambda: tz.tz._tzicalvtz("syn", [tz.tz._tzicalvtzcomp(int(c.tzoffsetfrom.total_seconds()), int(c.tzoffsetto.total_seconds()),
                                                                 c.isdst, tzname=c.tzname, rrule=c.rrule) for c in comps])), "|".join(wire), points


def validate_ical(ctx, mod):
    """mod: the harness/props/c17.py module (its generators are reused)"""
    if not _kernels_ok(ctx):
        return
    from dateutil import tz
    rng = ctx.subrng("tzobj-ical")
    thorough = ctx.tier == "thorough" or ctx.escalated
    reqs, exp = [], []
    offs = ["+0100", "-0530", "0100", "+013015", "-000001", "", " ", "+", "-", "+1", "+01:00", "+01000", "-+130", " +0100 ", "+01_0", "1_00",
            "+0a00", "++100", "+ 100", "123456", "+9999", "-999999", "-0000", "+-100", "\t-0130\n", "+1 00", "-1_0_0_0"]
    alph = "+-0123456789 _a:"
    for _ in range(200 if thorough else 40):
        offs.append("".join(rng.choice(alph) for _ in range(rng.choice([3, 4, 5, 5, 6, 7]))))
    for sv in dict.fromkeys(offs):
        try:
            g = "ok %d" % tz.tzical._parse_offset(None, sv)
        except Exception as ex:
            g = "err %s" % exc_kind(ex)
        reqs.append("tzgen.ical.offset " + hexs(sv)); exp.append(g)
    # component selection through the cache
    deltas = (-86400 * US, -3600 * US - 1, -3600 * US, -1, 0, 1, 500000, 1800 * US, 3600 * US - 1, 3600 * US, 7200 * US, 86400 * US)
    for i in range(60 if thorough else 10):
        fresh, cw, points = synthetic_zone(rng)
        pts = points or [datetime.datetime(2000, 1, 15)]
        cand = [(us_of(rng.choice(pts)) + rng.choice(deltas), rng.randint(0, 1)) for _ in range(14)]
        seq = [rng.choice(cand) for _ in range(rng.choice([5, 12, 30]))]
        reqs.append("tzgen.ical.seq %s %s" % (cw, ";".join("%d:%d" % q for q in seq))); exp.append(run_seq(fresh(), seq))
    lo, hi = datetime.datetime(2012, 1, 1), datetime.datetime(2030, 1, 1)
    for i in range(12 if thorough else 3):
        spec = mod.gen_spec(rng)
        text = mod.vtimezone(spec, order=i % 2)
        z = mod.load(text).get()
        cw = mod.comps_wire(z, lo, hi)
        cand = []
        for y in (2015, 2024):
            for tu in mod.transitions_utc(spec, y):
                for off in (spec["std"], spec["dst"]):
                    for d in (-3600, -1, 0, 1800, 3600):
                        cand.append((us_of(tu + datetime.timedelta(seconds=off + d)) + rng.choice([0, 0, 1, 999999]), rng.randint(0, 1)))
        seq = [rng.choice(cand) for _ in range(25)]
        z2 = mod.load(text).get()
        for c in z2._comps:
            c.tzname = _comp_str(c)
        reqs.append("tzgen.ical.seq %s %s" % (cw, ";".join("%d:%d" % q for q in seq))); exp.append(run_seq(z2, seq))
    _compare(ctx, reqs, exp, "tzobj_translator_validation_requests")


# ---------------------------------------------------------------------------------------------- C08

def _ostr(x):
    return "-" if x is None else "s" + hexs(x)


def _delta_wire(d):
    if d is None: return "-"
    return "(%s_%s_%s_%d_%d)" % ("-" if d[0] is None else d[0], "-" if d[1] is None else d[1],
                                 "-" if d[2] is None else "%d/%d" % d[2], d[3], d[4])


def _delta_obj(d):
    from dateutil import relativedelta as R
    if d is None: return None
    kw = {}
    if d[0] is not None: kw["month"] = d[0]
    if d[1] is not None: kw["day"] = d[1]
    if d[2] is not None: kw["weekday"] = R.weekday(d[2][0], d[2][1])
    return R.relativedelta(leapdays=d[3], seconds=d[4], **kw)


def _zone_dump(mod, z):
    return "ok %s %s %d %d %s %s %d" % (
        _ostr(z._std_abbr), _ostr(z._dst_abbr), int(z._std_offset.total_seconds()), int(z._dst_offset.total_seconds()),
        mod.dump_delta(z._start_delta), mod.dump_delta(z._end_delta), int(bool(z.hasdst)))


class _Bare(object):
    """stands for a tzstr under construction: `_delta` reads only `_std_offset` / `_dst_offset`"""


def validate_str(ctx, mod):
    """mod: the harness/props/c08.py module"""
    if not _kernels_ok(ctx):
        return
    from dateutil import tz
    from dateutil.parser import _parser
    rng = ctx.subrng("tzobj-str")
    thorough = ctx.tier == "thorough" or ctx.escalated
    strings = list(mod.FIXED_STRINGS)
    for _ in range(400 if thorough else 40):
        strings.append(mod.gen_spec(rng, wide_times=True)["s"])
    base = list(strings)
    for _ in range(1200 if thorough else 80):
        s = rng.choice(base)
        for _ in range(rng.randint(1, 2)):
            s = mod.mutate(rng, s)
        strings.append(s)
    strings = [s for s in dict.fromkeys(strings) if mod.is_ascii_model_domain(s) and "\n" not in s]
    reqs, exp = [], []
    for s in strings:
        h = hexs(s)
        for posix in (0, 1):
            z, dump = mod.impl_zone(s, posix)
            reqs.append("tzgen.str.init %d %s" % (posix, h)); exp.append(dump)
            if z is not None and posix == 0:
                for y in (0, 1, 2024, 9999):
                    reqs.append("tzgen.str.trans 0 %s %d" % (h, y)); exp.append(mod.impl_trans(z, y))
    # _delta on arbitrary attribute records
    vals = [None, None, 0, 1, 2, 5, -1, 12, 59, 60, 61, 365, 366, 367, 7200]
    for _ in range(600 if thorough else 120):
        std, dst = rng.choice([0, -18000, 3600, 1, -43200]), rng.choice([0, -14400, 7200, 3599, 50400])
        isend = rng.randint(0, 1)
        a = {k: rng.choice(vals) for k in ("month", "week", "weekday", "yday", "jyday", "day", "time")}
        if rng.random() < 0.5:
            a["yday"] = a["jyday"] = None
        if rng.random() < 0.3:
            a["month"] = None
        obj = _Bare()
        obj._std_offset, obj._dst_offset = datetime.timedelta(seconds=std), datetime.timedelta(seconds=dst)
        x = _parser._tzparser._result._attr()
        for k, v in a.items():
            setattr(x, k, v)
        try:
            e = "ok " + mod.dump_delta(tz.tzstr._delta(obj, x, isend=isend))
        except Exception as ex:
            e = "err %s" % exc_kind(ex)
        reqs.append("tzgen.str.delta %d %d %d %s" % (std, dst, isend, " ".join("-" if a[k] is None else str(a[k]) for k in
                                                                           ("month", "week", "weekday", "yday", "jyday", "day", "time"))))
        exp.append(e)
    # tzrange.__init__ / __eq__
    abbrs = [None, "", "EST", "EDT"]
    offs = [None, 0, -18000, -14400, 3600, 86400 * 10 ** 9]
    dls = [None, None, (4, 1, (6, 1), 0, 7200), (10, 31, (6, -1), 0, 3600), (None, None, None, 0, 0), (3, None, None, 0, 0),
           (None, 5, None, 0, 0), (None, None, (0, 2), 0, 0), (None, None, None, -1, 0), (None, None, None, 0, 90000), (4, 1, (6, 2), 0, 7200)]
    zones = []
    for _ in range(300 if thorough else 60):
        a = (rng.choice(abbrs), rng.choice(offs), rng.choice(abbrs), rng.choice(offs), rng.choice(dls), rng.choice(dls))
        wire = "%s %s %s %s %s %s" % (_ostr(a[0]), "-" if a[1] is None else a[1], _ostr(a[2]), "-" if a[3] is None else a[3],
                                      _delta_wire(a[4]), _delta_wire(a[5]))
        try:
            z = tz.tzrange(a[0], a[1], a[2], a[3], _delta_obj(a[4]), _delta_obj(a[5]))
            e = _zone_dump(mod, z)
            zones.append((wire, z))
        except Exception as ex:
            e = "err %s" % exc_kind(ex)
        reqs.append("tzgen.range.init " + wire); exp.append(e)
    for _ in range(200 if thorough else 50):
        (w1, z1), (w2, z2) = rng.choice(zones), rng.choice(zones)
        if rng.random() < 0.3: w2, z2 = w1, z1
        reqs.append("tzgen.range.eq %s %s" % (w1, w2)); exp.append("ok %d" % int(z1 == z2))
    _compare(ctx, reqs, exp, "tzobj_translator_validation_requests")
