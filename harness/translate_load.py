#!/usr/bin/env python3
"""
translate_load.py — Python AST -> Lean 4 for "LoadPy": the load paths of a TZif zone,
    tz/tz.py            tzfile.__init__            (file name vs open stream, the choice of `_filename`, the call of `_read_tzfile`)
    zoneinfo/__init__.py ZoneInfoFile.__init__ / get (regular members, link members, METADATA)
→ Generated/TzLoadKernels.lean (namespace Gen).  `self._read_tzfile(stream)` is the TRANSLATED reader `Gen.readTzfile`.

Values: Str / OptStr, Bool, FileArg (path | open stream | None), Bytes / OptBytes, Out (the reader's result), OptTar / Tar
(`TarFile.open`: the member list), Member, Dict (name -> tzfile object), TzObj, OptTzObj.  Statements: assignments (names and `self.x`), `if`/`elif`/`else`
returning the names they assign, `with E as v`, dict comprehensions with one generator and an optional condition, `try … except KeyError`,
`self.zones.update(d)`, `self._set_tzdata(x)`, `super(…).__init__()` (skipped).  Anything else raises Untranslatable(<construct>).
"""
import ast, os, hashlib
from translate import Untranslatable

LEAN_TY = {"Str": "String", "OptStr": "(Option String)", "Bool": "Bool", "FileArg": "LoadPy.FileArg", "Bytes": "LoadPy.Bytes",
           "OptBytes": "(Option LoadPy.Bytes)", "Out": "TzifPy.Out", "OptOut": "(Option TzifPy.Out)", "OptTar": "(Option (List LoadPy.Member))",
           "Tar": "(List LoadPy.Member)", "Member": "LoadPy.Member", "Dict": "LoadPy.Dict", "TzObj": "LoadPy.TzObj",
           "OptTzObj": "(Option LoadPy.TzObj)"}
CONSTS = {"METADATA_FN": ('"METADATA"', "Str")}


class Fn:
    def __init__(self, file, qual, lean, params, ret, fields=None, extra=""):
        self.file, self.qual, self.lean, self.params, self.ret, self.fields, self.extra = file, qual, lean, params, ret, fields, extra


SPECS = [
    Fn("tz/tz.py", "tzfile.__init__", "tzfile_init", [("fileobj", "FileArg"), ("filename", "OptStr")], "TzObj",
       fields=[("_filename", "filename", "Str", '""'), ("<data>", "data", "OptOut", "none")], extra="(fs : LoadPy.FS) "),
    Fn("zoneinfo/__init__.py", "ZoneInfoFile.__init__", "zoneInfoFile_init", [("zonefile_stream", "OptTar")], "ZIF",
       fields=[("zones", "zones", "Dict", "[]"), ("metadata", "metadata", "OptBytes", "none")], extra="(fs : LoadPy.FS) "),
    Fn("zoneinfo/__init__.py", "ZoneInfoFile.get", "zoneInfoFile_get", [("name", "Str"), ("default", "OptTzObj")], "OptTzObj"),
]
LEAN_TY["ZIF"] = "LoadPy.ZIF"


def find_method(tree, qual):
    c, m = qual.split(".")
    cls = [n for n in tree.body if isinstance(n, ast.ClassDef) and n.name == c]
    fs = [n for n in cls[0].body if isinstance(n, ast.FunctionDef) and n.name == m] if cls else []
    if len(fs) != 1: raise Untranslatable("%s not found" % qual)
    return fs[0]


class Tr:
    def __init__(self, spec):
        self.spec, self.env, self.tmp = spec, {}, 0
        self.fields = {f[0]: f for f in (spec.fields or [])}

    def fresh(self):
        self.tmp += 1
        return "t%d" % self.tmp

    def coerce(self, b, t, ty, want):
        if ty == want: return b, t
        if ty == "None" and want.startswith("Opt"): return b, "none"
        if want.startswith("Opt") and "Opt" + ty == want: return b, "(some %s)" % t
        if ty == "OptStr" and want == "Str":
            n = self.fresh()
            return b + [(n, "←", "(match %s with | some s => pure s | none => throw Py.PyErr.TypeError : Py.R String)" % t)], n
        if ty == "OptTar" and want == "Tar":
            n = self.fresh()
            return b + [(n, "←", "LoadPy.tarOpen %s" % t)], n
        if ty == "EmptyDict" and want == "Dict": return b, "[]"
        if ty == "FileArg" and want == "Str":                 # a str used as a str (the isinstance(…, string_types) arm)
            n = self.fresh()
            return b + [(n, "←", "LoadPy.strOf %s" % t)], n
        raise Untranslatable("a value of type %s where %s is expected" % (ty, want))

    def self_attr(self, e):
        return isinstance(e, ast.Attribute) and isinstance(e.value, ast.Name) and e.value.id == "self"

    # ------------------------------------------------------------ expressions
    def expr(self, e):
        if isinstance(e, ast.Constant):
            if e.value is None: return [], "none", "None"
            if e.value is True or e.value is False: return [], str(e.value).lower(), "Bool"
            if isinstance(e.value, str): return [], '"%s"' % e.value, "Str"
        if isinstance(e, ast.Name):
            if e.id in self.env: return [], e.id, self.env[e.id]
            if e.id in CONSTS: return [], CONSTS[e.id][0], CONSTS[e.id][1]
            raise Untranslatable("name %s" % e.id)
        if isinstance(e, ast.Dict) and not e.keys:
            return [], "[]", "EmptyDict"
        if self.self_attr(e):
            if e.attr in self.fields and ("self_" + e.attr) in self.env:
                return [], "self_" + e.attr, self.env["self_" + e.attr]
            if self.spec.qual == "ZoneInfoFile.get" and e.attr == "zones": return [], "self.zones", "Dict"
            raise Untranslatable("self.%s" % e.attr)
        if isinstance(e, ast.Attribute):
            b, t, ty = self.expr(e.value)
            if ty == "FileArg" and e.attr == "name":
                n = self.fresh()
                return b + [(n, "←", "LoadPy.nameOf %s" % t)], n, "Str"
            if ty == "Member" and e.attr == "name": return b, "%s.name" % t, "Str"
            if ty == "Member" and e.attr == "linkname": return b, "%s.linkname" % t, "Str"
            raise Untranslatable("attribute .%s of %s" % (e.attr, ty))
        if isinstance(e, ast.Subscript):
            b, t, ty = self.expr(e.value); bk, k, tk = self.expr(e.slice)
            if ty == "Dict" and tk == "Str":
                n = self.fresh()
                return b + bk + [(n, "←", "LoadPy.dgetR %s %s" % (t, k))], n, "TzObj"
            raise Untranslatable("subscript of %s" % ty)
        if isinstance(e, ast.DictComp):
            if len(e.generators) != 1 or not isinstance(e.generators[0].target, ast.Name) or len(e.generators[0].ifs) > 1:
                raise Untranslatable("comprehension shape")
            g = e.generators[0]
            bi, it, ti = self.expr(g.iter)
            if ti != "Tar": raise Untranslatable("comprehension over %s" % ti)
            saved = dict(self.env)
            self.env[g.target.id] = "Member"
            cond = "true"
            if g.ifs:
                bc, cond = self.cond(g.ifs[0])
                if bc: raise Untranslatable("comprehension condition that can raise")
            bk, k, tk = self.expr(e.key)
            if bk or tk != "Str": raise Untranslatable("comprehension key")
            bv, v, tv = self.expr(e.value)
            if tv != "TzObj": raise Untranslatable("comprehension value of type %s" % tv)
            self.env = saved
            x = g.target.id
            body = " ".join("let %s %s %s;" % q for q in bv)
            n = self.fresh()
            return bi + [(n, "←", "LoadPy.dictCompM %s (fun %s => %s) (fun %s => %s) (fun %s => do %s pure %s)" % (it, x, cond, x, k, x, body, v))], n, "Dict"
        if isinstance(e, ast.Call):
            return self.call(e)
        if isinstance(e, (ast.BoolOp, ast.Compare)) or (isinstance(e, ast.UnaryOp) and isinstance(e.op, ast.Not)):
            b, c = self.cond(e)
            return b, c, "Bool"
        raise Untranslatable("expression %s" % type(e).__name__)

    def call(self, e):
        f = e.func
        if isinstance(f, ast.Name):
            if f.id == "isinstance" and len(e.args) == 2 and isinstance(e.args[1], ast.Name) and e.args[1].id == "string_types":
                b, t, ty = self.expr(e.args[0])
                if ty == "FileArg": return b, "(LoadPy.isStr %s)" % t, "Bool"
            if f.id == "open" and len(e.args) == 2 and isinstance(e.args[1], ast.Constant) and e.args[1].value == "rb":
                b, t, ty = self.expr(e.args[0])
                if ty == "FileArg":
                    n = self.fresh()
                    return b + [(n, "←", "LoadPy.openRb fs %s" % t)], n, "FileArg"
            if f.id == "hasattr" and len(e.args) == 2 and isinstance(e.args[1], ast.Constant) and e.args[1].value == "name":
                b, t, ty = self.expr(e.args[0])
                if ty == "FileArg": return b, "(LoadPy.hasName %s)" % t, "Bool"
            if f.id == "repr" and len(e.args) == 1:
                b, t, ty = self.expr(e.args[0])
                if ty == "FileArg": return b, "(LoadPy.reprOf %s)" % t, "Str"
            if f.id == "_nullcontext" and len(e.args) == 1:
                return self.expr(e.args[0])                # hands the object through `with`
            if f.id == "tzfile" and len(e.args) == 1 and len(e.keywords) == 1 and e.keywords[0].arg == "filename":
                b, t, ty = self.expr(e.args[0]); bf, fn, tf = self.expr(e.keywords[0].value)
                if ty != "FileArg": raise Untranslatable("tzfile(%s)" % ty)
                bf, fn = self.coerce(bf, fn, tf, "OptStr")
                n = self.fresh()
                return b + bf + [(n, "←", "tzfile_init fs %s %s" % (t, fn))], n, "TzObj"
            raise Untranslatable("call of %s" % f.id)
        if isinstance(f, ast.Attribute):
            if self.self_attr(f) and f.attr == "_read_tzfile" and len(e.args) == 1:
                b, t, ty = self.expr(e.args[0])
                if ty != "FileArg": raise Untranslatable("_read_tzfile(%s)" % ty)
                n1, n2 = self.fresh(), self.fresh()
                return b + [(n1, "←", "LoadPy.streamBytes %s" % t), (n2, "←", "readTzfile %s" % n1)], n2, "Out"
            if isinstance(f.value, ast.Name) and f.value.id == "TarFile" and f.attr == "open" and not e.args \
                    and len(e.keywords) == 1 and e.keywords[0].arg == "fileobj":
                b, t, ty = self.expr(e.keywords[0].value)
                b, t = self.coerce(b, t, ty, "Tar")
                return b, t, "Tar"
            if isinstance(f.value, ast.Name) and f.value.id == "json" and f.attr == "loads" and len(e.args) == 1:
                b, t, ty = self.expr(e.args[0])
                if ty == "Bytes": return b, "(LoadPy.jsonLoads %s)" % t, "Bytes"
            b, t, ty = self.expr(f.value)
            if ty == "Tar" and f.attr == "getmembers" and not e.args: return b, t, "Tar"
            if ty == "Tar" and f.attr == "getmember" and len(e.args) == 1:
                bk, k, tk = self.expr(e.args[0])
                n = self.fresh()
                return b + bk + [(n, "←", "LoadPy.getmember %s %s" % (t, k))], n, "Member"
            if ty == "Tar" and f.attr == "extractfile" and len(e.args) == 1:
                bm, m, tm = self.expr(e.args[0])
                if tm == "Member": return b + bm, "(LoadPy.extractfile %s)" % m, "FileArg"
            if ty == "Member" and f.attr in ("isfile", "islnk", "issym") and not e.args: return b, "%s.%s" % (t, f.attr), "Bool"
            if ty == "FileArg" and f.attr == "read" and not e.args:
                n = self.fresh()
                return b + [(n, "←", "LoadPy.streamBytes %s" % t)], n, "Bytes"
            if ty == "Bytes" and f.attr == "decode" and len(e.args) == 1 and isinstance(e.args[0], ast.Constant) and e.args[0].value == "UTF-8":
                return b, t, "Bytes"
            if ty == "Dict" and f.attr == "get" and len(e.args) == 2:
                bk, k, tk = self.expr(e.args[0]); bd, d, td = self.expr(e.args[1])
                if tk == "Str" and td == "OptTzObj": return b + bk + bd, "((LoadPy.dget %s %s).or %s)" % (t, k, d), "OptTzObj"
        raise Untranslatable("call")

    def cond(self, e):
        if isinstance(e, ast.UnaryOp) and isinstance(e.op, ast.Not):
            b, c = self.cond(e.operand)
            return b, "(!%s)" % c
        if isinstance(e, ast.BoolOp):
            binds, parts = [], []
            for v in e.values:
                b, c = self.cond(v)
                if b and parts: raise Untranslatable("short-circuit operand that can raise")
                binds += b; parts.append(c)
            return binds, "(" + (" && " if isinstance(e.op, ast.And) else " || ").join(parts) + ")"
        if isinstance(e, ast.Compare) and len(e.ops) == 1:
            op, right = e.ops[0], e.comparators[0]
            bl, l, tl = self.expr(e.left)
            if isinstance(op, (ast.Is, ast.IsNot)) and isinstance(right, ast.Constant) and right.value is None:
                if tl == "FileArg": c = "(LoadPy.isNone %s)" % l
                elif tl.startswith("Opt"): c = "(%s).isNone" % l
                else: raise Untranslatable("`is None` on %s" % tl)
                return bl, c if isinstance(op, ast.Is) else "(!%s)" % c
            br, r, tr = self.expr(right)
            if isinstance(op, (ast.Eq, ast.NotEq)) and tl == tr == "Str":
                return bl + br, "(%s %s %s)" % (l, "==" if isinstance(op, ast.Eq) else "!=", r)
            raise Untranslatable("comparison")
        b, t, ty = self.expr(e)
        if ty == "Bool": return b, t
        raise Untranslatable("truth value of %s" % ty)

    # ------------------------------------------------------------ statements
    def emit(self, binds, pad):
        return ["%slet %s %s %s" % (pad, p, k, r) for p, k, r in binds]

    def target_name(self, t):
        if isinstance(t, ast.Name): return t.id
        if self.self_attr(t) and t.attr in self.fields: return "self_" + t.attr
        raise Untranslatable("assignment target")

    def assigned(self, stmts):
        out = []
        def add(n):
            if n not in out: out.append(n)
        for s in stmts:
            for n in ast.walk(s):
                if isinstance(n, ast.Assign):
                    for t in n.targets: add(self.target_name(t))
                elif isinstance(n, ast.With):
                    for it in n.items:
                        if it.optional_vars is not None: add(self.target_name(it.optional_vars))
                elif isinstance(n, ast.Call) and isinstance(n.func, ast.Attribute) and self.self_attr(n.func):
                    if n.func.attr == "_set_tzdata": add("self_<data>")
                elif isinstance(n, ast.Call) and isinstance(n.func, ast.Attribute) and n.func.attr == "update" \
                        and self.self_attr(n.func.value): add("self_" + n.func.value.attr)
        return out

    def stmts(self, body, ind):
        """lines for a statement list (no escapes in this fragment)"""
        pad = "  " * ind
        lines = []
        for s in body:
            if isinstance(s, ast.Expr) and isinstance(s.value, ast.Constant): continue
            if isinstance(s, ast.Expr) and isinstance(s.value, ast.Call):
                c = s.value
                if isinstance(c.func, ast.Attribute) and c.func.attr == "__init__" and isinstance(c.func.value, ast.Call) \
                        and isinstance(c.func.value.func, ast.Name) and c.func.value.func.id == "super" and not c.args:
                    continue                                # datetime.tzinfo.__init__ / _tzinfo.__init__: no state
                if isinstance(c.func, ast.Attribute) and self.self_attr(c.func) and c.func.attr == "_set_tzdata" and len(c.args) == 1:
                    b, t, ty = self.expr(c.args[0])
                    if ty != "Out": raise Untranslatable("_set_tzdata(%s)" % ty)
                    lines += self.emit(b, pad) + ["%slet self_data : %s := (some %s)" % (pad, LEAN_TY["OptOut"], t)]
                    self.env["self_<data>"] = "OptOut"
                    continue
                if isinstance(c.func, ast.Attribute) and c.func.attr == "update" and self.self_attr(c.func.value) and len(c.args) == 1:
                    name = "self_" + c.func.value.attr
                    b, t, ty = self.expr(c.args[0])
                    if self.env.get(name) != "Dict" or ty != "Dict": raise Untranslatable("update")
                    lines += self.emit(b, pad) + ["%slet %s : LoadPy.Dict := %s ++ %s" % (pad, name, name, t)]
                    continue
                raise Untranslatable("expression statement")
            if isinstance(s, ast.Assign) and len(s.targets) == 1:
                name = self.target_name(s.targets[0])
                b, t, ty = self.expr(s.value)
                want = self.env.get(name)
                if want is None:
                    if ty in ("None", "EmptyDict"): raise Untranslatable("cannot type %s" % name)
                    want = ty
                b, t = self.coerce(b, t, ty, want)
                self.env[name] = want
                lines += self.emit(b, pad) + ["%slet %s : %s := %s" % (pad, self.lean_name(name), LEAN_TY[want], t)]
                continue
            if isinstance(s, ast.With):
                if len(s.items) != 1 or not isinstance(s.items[0].optional_vars, ast.Name): raise Untranslatable("with statement")
                b, t, ty = self.expr(s.items[0].context_expr)
                if ty not in ("FileArg", "Tar"): raise Untranslatable("with %s" % ty)
                v = s.items[0].optional_vars.id
                self.env[v] = ty
                lines += self.emit(b, pad) + ["%slet %s : %s := %s" % (pad, v, LEAN_TY[ty], t)] + self.stmts(s.body, ind)
                continue
            if isinstance(s, ast.If):
                b, c = self.cond(s.test)
                names = [n for n in self.assigned(list(s.body) + list(s.orelse)) if n in self.env]
                if not names: raise Untranslatable("if statement without effect")
                saved = dict(self.env)
                tup = self.lean_name(names[0]) if len(names) == 1 else "(" + ", ".join(self.lean_name(n) for n in names) + ")"
                def branch(body):
                    self.env = dict(saved)
                    ls = self.stmts(list(body), ind + 2)
                    for n in names:
                        if self.env[n] != saved[n]: raise Untranslatable("%s changes its type in a branch" % n)
                    return ls + ["  " * (ind + 2) + "pure " + tup]
                th, el = branch(s.body), branch(s.orelse)
                self.env = saved
                lines += self.emit(b, pad)
                lines.append("%slet %s ← ((if %s then do" % (pad, tup, c))
                lines += th + ["%s  else do" % pad] + el
                lines.append("%s  ) : Py.R (%s))" % (pad, " × ".join(LEAN_TY[saved[n]] for n in names)))
                continue
            if isinstance(s, ast.Try):
                if len(s.handlers) != 1 or s.orelse or s.finalbody or not isinstance(s.handlers[0].type, ast.Name):
                    raise Untranslatable("try statement shape")
                kind = s.handlers[0].type.id
                if kind != "KeyError": raise Untranslatable("except %s" % kind)
                names = [n for n in self.assigned(list(s.body) + list(s.handlers[0].body)) if n in self.env]
                saved = dict(self.env)
                tup = self.lean_name(names[0]) if len(names) == 1 else "(" + ", ".join(self.lean_name(n) for n in names) + ")"
                def branch(body):
                    self.env = dict(saved)
                    return self.stmts(list(body), ind + 2) + ["  " * (ind + 2) + "pure " + tup]
                th, el = branch(s.body), branch(s.handlers[0].body)
                self.env = saved
                ty = " × ".join(LEAN_TY[saved[n]] for n in names)
                lines.append("%slet %s ← (match ((do" % (pad, tup))
                lines += th + ["%s  ) : Py.R (%s)) with" % (pad, ty), "%s  | .ok v => pure v" % pad, "%s  | .error .KeyError => (do" % pad]
                lines += el + ["%s    : Py.R (%s))" % (pad, ty), "%s  | .error err => throw err : Py.R (%s))" % (pad, ty)]
                continue
            if isinstance(s, ast.Return):
                b, t, ty = self.expr(s.value)
                b, t = self.coerce(b, t, ty, self.spec.ret)
                lines += self.emit(b, pad) + [pad + "pure " + t]
                return lines
            raise Untranslatable("statement %s" % type(s).__name__)
        return lines

    def lean_name(self, n):
        return "self_data" if n == "self_<data>" else n.replace("self__", "self_u_")

    def function(self, fn):
        sp = self.spec
        formals = [a.arg for a in fn.args.args if a.arg != "self"]
        if formals != [n for n, _ in sp.params]: raise Untranslatable("signature of %s is %s" % (sp.qual, formals))
        for d in fn.args.defaults:
            if not (isinstance(d, ast.Constant) and d.value is None): raise Untranslatable("default of %s" % sp.qual)
        for n, t in sp.params: self.env[n] = t
        head = []
        for attr, lf, ty, dflt in (sp.fields or []):
            self.env["self_" + attr] = ty
            head.append("  let %s : %s := %s  -- set on every path below (an unset attribute is not modelled)" % (self.lean_name("self_" + attr), LEAN_TY[ty], dflt))
        body = self.stmts(fn.body, 1)
        if sp.fields:
            body.append("  pure { %s }" % ", ".join("%s := %s" % (lf, self.lean_name("self_" + attr)) for attr, lf, _, _ in sp.fields))
        selfp = "(self : LoadPy.ZIF) " if sp.qual == "ZoneInfoFile.get" else ""
        params = sp.extra + selfp + " ".join("(%s : %s)" % (n, LEAN_TY[t]) for n, t in sp.params)
        text = "/-- translated from `%s` (%s) -/\ndef %s %s : Py.R %s := do\n%s\n" % (sp.qual, sp.file, sp.lean, params, LEAN_TY[sp.ret], "\n".join(head + body))
        return text, hashlib.sha256(ast.dump(fn).encode()).hexdigest()[:16]


def translate_files(src_root, groups=None):
    parts, fps, trees = [], {}, {}
    for sp in SPECS:
        if sp.file not in trees:
            trees[sp.file] = ast.parse(open(os.path.join(src_root, sp.file)).read())
        tree = trees[sp.file]
        if sp.qual.startswith("ZoneInfoFile"):
            # `tzfile` in zoneinfo/__init__.py must be the subclass of tz.tzfile that only adds __reduce__ (its __init__ is tz.tzfile's)
            sub = [n for n in tree.body if isinstance(n, ast.ClassDef) and n.name == "tzfile"]
            if len(sub) != 1 or [ast.dump(b) for b in sub[0].bases] != [ast.dump(ast.Name(id="_tzfile", ctx=ast.Load()))] \
                    or [m.name for m in sub[0].body if isinstance(m, ast.FunctionDef)] != ["__reduce__"]:
                raise Untranslatable("zoneinfo.tzfile is not tz.tzfile + __reduce__")
        text, fp = Tr(sp).function(find_method(tree, sp.qual))
        parts.append(text); fps[sp.qual] = fp
    return "\n".join(parts), fps


if __name__ == "__main__":
    import sys
    print(translate_files(sys.argv[1] if len(sys.argv) > 1 else "/repo/src/dateutil")[0])
