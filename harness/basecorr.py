"""
basecorr.py — correspondence of the calendar base (Base/Calendar.lean) with CPython's
datetime/calendar.  Executed as the first step of every property's correspondence.
"""
import datetime, calendar

BOUNDARY_YEARS = [1, 2, 4, 100, 400, 1582, 1583, 1900, 2000, 2100, 4099, 4100, 9998, 9999]

def run(ctx, full=False):
    rng = ctx.subrng("base")
    reqs, exp = [], []
    def add(line, e):
        reqs.append(line); exp.append(e)
    years = BOUNDARY_YEARS if full else [1, 1900, 2000, 9999]
    for y in years:
        for m in range(1, 13):
            dim = calendar.monthrange(y, m)[1]
            add("base.dim %d %d" % (y, m), "ok %d" % dim)
            for d in (range(1, 33) if full else (1, 15, dim, dim + 1)):
                try:
                    dt = datetime.date(y, m, d)
                except ValueError:
                    add("base.toord %d %d %d" % (y, m, d), "err ValueError")
                    continue
                add("base.toord %d %d %d" % (y, m, d), "ok %d" % dt.toordinal())
                add("base.weekday %d %d %d" % (y, m, d), "ok %d" % dt.weekday())
                ic = dt.isocalendar()
                add("base.isocal %d %d %d" % (y, m, d), "ok %d %d %d" % (ic[0], ic[1], ic[2]))
                add("base.yday %d %d %d" % (y, m, d), "ok %d" % dt.timetuple().tm_yday)
        add("base.isleap %d" % y, "ok %d" % int(calendar.isleap(y)))
    n = ctx.budget(2000, 200000) if not full else 200000
    for _ in range(n):
        o = rng.randint(1, 3652059)
        dt = datetime.date.fromordinal(o)
        add("base.fromord %d" % o, "ok %d %d %d" % (dt.year, dt.month, dt.day))
    epoch = datetime.datetime(1, 1, 1)
    for _ in range(n // 4 + 50):
        o = rng.choice([1, 2, 3652059, 3652058, rng.randint(1, 3652059)])
        dt = datetime.datetime.fromordinal(o).replace(hour=rng.choice([0, 23, rng.randint(0, 23)]),
            minute=rng.choice([0, 59, rng.randint(0, 59)]), second=rng.choice([0, 59, rng.randint(0, 59)]),
            microsecond=rng.choice([0, 999999, rng.randint(0, 999999)]))
        delta_us = rng.choice([0, 1, -1, 86400000000, -86400000000, rng.randint(-10**13, 10**13), rng.randint(-4 * 10**17, 4 * 10**17)])
        flds = "%d %d %d %d %d %d %d" % (dt.year, dt.month, dt.day, dt.hour, dt.minute, dt.second, dt.microsecond)
        try:
            r = dt + datetime.timedelta(microseconds=delta_us)
            e = "ok %d %d %d %d %d %d %d" % (r.year, r.month, r.day, r.hour, r.minute, r.second, r.microsecond)
        except OverflowError:
            e = "err OverflowError"
        add("base.dtadd %s %d" % (flds, delta_us), e)
        td = dt - epoch
        add("base.dtmicros %s" % flds, "ok %d" % (((td.days + 1) * 86400 + td.seconds) * 1000000 + td.microseconds))
    for o in (0, -5, 3652060):
        add("base.fromord %d" % o, "err ValueError")
    got = ctx.driver(reqs)
    bad = 0
    for q, e, g in zip(reqs, exp, got):
        if e != g:
            bad += 1
            ctx.mismatch("base", q, e, g)
    ctx.count("base_corr_cases", len(reqs))
    ctx.traces += len(reqs)
    return bad
