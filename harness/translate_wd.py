#!/usr/bin/env python3
"""
translate_wd.py — Python AST -> Lean 4 for "WdPy": the class `dateutil._common.weekday` (src/dateutil/_common.py), whose
objects are the `weekday=` values of relativedelta and the BYDAY members of rrule / rrulestr.

A weekday object is the pair `(weekday : Int, n : Option Int)` (`WdPy.Wd`, the type the relativedelta model uses for its
`weekday` field).  Methods are translated into functions `Gen.wd* : … → Py.R …` (Generated/WdOps.lean):

    __init__(self, weekday, n=None)    the object built: `self.<slot> = <expr>` for exactly the two slots
    __call__(self, n)                  (value, is_self): `return self` is the SAME object, `self.__class__(a, b)` a new one built by
                                       the constructor of the receiver's class (a parameter `ctor`: weekday or rrule.weekday)
    __eq__(self, other)                `other` is a weekday object or an object WITHOUT the attributes (`WdPy.Other`): the
                                       `try: … except AttributeError: return …` becomes a match on `other`
    __ne__, __hash__ (the tuple handed to hash()), __reduce__ (the constructor arguments), __repr__

Fragment: `self.weekday` / `self.n` / `other.weekday` / `other.n`, parameters, int / None / str / bool literals, `==` `!=`
on ints / Optional ints / objects (object comparison = the translated __eq__), `and` `or` `not`, truthiness of an
Optional int, `if / else`, `return`, a local assignment, `<tuple of str literals>[i]` (IndexError, negative wrap),
`"%s(%+d)" % (s, n)` (named primitive WdPy.fmtNth), `hash((a, b))`, `self.__class__(a, b)`, `(self.__class__, (a, b))`,
`try / except AttributeError`.  Anything else raises Untranslatable (a broken tie).
"""
import ast, os, hashlib
from translate import Untranslatable, find_function

LEAN_TY = {"Int": "Int", "OptInt": "Option Int", "Wd": "WdPy.Wd", "Other": "WdPy.Other", "Bool": "Bool", "Str": "String",
           "Pair": "(Int × Option Int)", "WdSame": "(WdPy.Wd × Bool)"}


class Spec:
    def __init__(self, method, leanname, params, ret, init=False):
        self.method, self.leanname, self.params, self.ret, self.init = method, leanname, params, ret, init


WD_SPECS = [
    Spec("__init__", "wdInit", [("weekday", "Int"), ("n", "OptInt")], "Wd", init=True),
    Spec("__call__", "wdCall", [("n", "OptInt")], "WdSame"),
    Spec("__eq__", "wdEq", [("other", "Other")], "Bool"),
    Spec("__hash__", "wdHash", [], "Pair"),
    Spec("__ne__", "wdNe", [("other", "Other")], "Bool"),
    Spec("__reduce__", "wdReduce", [], "Pair"),
    Spec("__repr__", "wdRepr", [], "Str"),
]
# rrule.weekday (src/dateutil/rrule.py): the subclass whose constructor rejects n == 0, then calls the base constructor
RR_SPECS = [
    Spec("__init__", "wdInitRR", [("wkday", "Int"), ("n", "OptInt")], "Wd", init=True),
]


class Tr:
    def __init__(self, spec):
        self.spec = spec
        self.types = dict(spec.params)
        self.other_is_wd = False       # inside the `.wd o` arm of a match on `other`
        self.tmp = 0
        self.slots = {}                # __init__: slot -> lean term
        self.uses_ctor = False

    def fresh(self, p):
        self.tmp += 1
        return "%s_%d" % (p, self.tmp)

    # expressions: returns (term, type); monadic sub-terms are pushed on `pre` as (name, term)
    def E(self, e, pre):
        if isinstance(e, ast.Constant):
            v = e.value
            if v is None: return "none", "OptInt"
            if isinstance(v, bool): return ("true" if v else "false"), "Bool"
            if isinstance(v, int): return (str(v) if v >= 0 else "(%d)" % v), "Int"
            if isinstance(v, str): return '"%s"' % v.replace('"', '\\"'), "Str"
            raise Untranslatable("constant %r" % (v,))
        if isinstance(e, ast.Name):
            if e.id == "self": return "self", "Wd"
            if e.id in self.types:
                if e.id == "other" and self.types[e.id] == "Other":
                    return "other", "Other"
                return e.id, self.types[e.id]
            raise Untranslatable("name %s" % e.id)
        if isinstance(e, ast.Attribute) and isinstance(e.value, ast.Name) and e.attr in ("weekday", "n"):
            if e.value.id == "self":
                return ("self.1", "Int") if e.attr == "weekday" else ("self.2", "OptInt")
            if e.value.id == "other" and self.types.get("other") == "Other":
                if not self.other_is_wd: raise Untranslatable("other.%s outside try/except AttributeError" % e.attr)
                return ("o.1", "Int") if e.attr == "weekday" else ("o.2", "OptInt")
        if isinstance(e, ast.UnaryOp) and isinstance(e.op, ast.Not):
            return "(decide (¬ %s))" % self.C(e.operand, pre), "Bool"
        if isinstance(e, (ast.Compare, ast.BoolOp)):
            return "(decide %s)" % self.C(e, pre), "Bool"
        if isinstance(e, ast.Tuple) and len(e.elts) == 2:
            a, ta = self.E(e.elts[0], pre)
            if isinstance(e.elts[0], ast.Attribute) and ast.unparse(e.elts[0]) == "self.__class__":
                raise Untranslatable("class object inside a value")
            b, tb = self.E(e.elts[1], pre)
            if (ta, tb) == ("Int", "OptInt"): return "(%s, %s)" % (a, b), "Pair"
            raise Untranslatable("tuple of %s, %s" % (ta, tb))
        if isinstance(e, ast.Subscript) and isinstance(e.value, ast.Tuple) \
                and all(isinstance(x, ast.Constant) and isinstance(x.value, str) for x in e.value.elts):
            i, ti = self.E(e.slice, pre)
            if ti != "Int": raise Untranslatable("index of type %s" % ti)
            t = self.fresh("s")
            pre.append((t, "Py.getIdx [%s] %s" % (", ".join('"%s"' % x.value for x in e.value.elts), i)))
            return t, "Str"
        if isinstance(e, ast.BinOp) and isinstance(e.op, ast.Mod) and isinstance(e.left, ast.Constant) \
                and e.left.value == "%s(%+d)" and isinstance(e.right, ast.Tuple) and len(e.right.elts) == 2:
            s, ts = self.E(e.right.elts[0], pre)
            n, tn = self.E(e.right.elts[1], pre)
            if (ts, tn) != ("Str", "OptInt"): raise Untranslatable("%% on %s, %s" % (ts, tn))
            t = self.fresh("f")
            pre.append((t, "WdPy.fmtNth %s %s" % (s, n)))      # TypeError when n is None
            return t, "Str"
        if isinstance(e, ast.Call):
            f = e.func
            if isinstance(f, ast.Name) and f.id == "hash" and len(e.args) == 1 and isinstance(e.args[0], ast.Tuple):
                return self.E(e.args[0], pre)                   # the tuple that is hashed
            if isinstance(f, ast.Attribute) and ast.unparse(f) == "self.__class__" and len(e.args) == 2 and not e.keywords:
                a, ta = self.E(e.args[0], pre); b, tb = self.E(e.args[1], pre)
                if (ta, tb) != ("Int", "OptInt"): raise Untranslatable("constructor arguments %s, %s" % (ta, tb))
                t = self.fresh("w")
                # `self.__class__` is the class of the RECEIVER (weekday itself or a subclass such as rrule.weekday, whose
                # constructor rejects n == 0): its constructor is a parameter of the translated method
                self.uses_ctor = True
                pre.append((t, "ctor %s %s" % (a, b)))
                return t, "Wd"
            raise Untranslatable("call %s" % ast.unparse(f))
        raise Untranslatable("expression %s" % type(e).__name__)

    # conditions: Prop text
    def C(self, e, pre):
        if isinstance(e, ast.BoolOp):
            parts = [self.C(v, pre) for v in e.values]
            return "(" + (" ∧ " if isinstance(e.op, ast.And) else " ∨ ").join(parts) + ")"
        if isinstance(e, ast.UnaryOp) and isinstance(e.op, ast.Not):
            return "(¬ %s)" % self.C(e.operand, pre)
        if isinstance(e, ast.Compare) and len(e.ops) == 1 and isinstance(e.ops[0], (ast.Eq, ast.NotEq)):
            l, tl = self.E(e.left, pre)
            r, tr = self.E(e.comparators[0], pre)
            neg = isinstance(e.ops[0], ast.NotEq)
            if tl == "Wd" and tr == "Other":                    # object comparison: the translated __eq__
                t = self.fresh("q")
                pre.append((t, "wdEq %s %s" % (l, r)))
                return "(%s = %s)" % (t, "false" if neg else "true")
            if {tl, tr} == {"Int", "OptInt"}:                   # an int against an Optional int
                l, r = ("(some %s)" % l if tl == "Int" else l), ("(some %s)" % r if tr == "Int" else r)
                tl = tr = "OptInt"
            if tl != tr or tl not in ("Int", "OptInt", "Str", "Bool"):
                raise Untranslatable("comparison of %s with %s" % (tl, tr))
            return "(%s %s %s)" % (l, "≠" if neg else "=", r)
        t, ty = self.E(e, pre)
        if ty == "Bool": return "(%s = true)" % t
        if ty == "OptInt": return "(WdPy.truthy %s)" % t
        if ty == "Int": return "(%s ≠ 0)" % t
        raise Untranslatable("truthiness of %s" % ty)

    @staticmethod
    def wrap(pre, body):
        for name, term in reversed(pre):
            body = "Except.bind (%s) (fun %s =>\n%s)" % (term, name, body)
        return body

    # statements: a block must end in `return` on every path (or be __init__)
    def B(self, stmts):
        if not stmts:
            if self.spec.init:
                if set(self.slots) != {"weekday", "n"}: raise Untranslatable("__init__ must set exactly the slots weekday, n")
                return ".ok (%s, %s)" % (self.slots["weekday"], self.slots["n"])
            raise Untranslatable("a path without return")
        s, rest = stmts[0], stmts[1:]
        if isinstance(s, ast.Expr) and isinstance(s.value, ast.Constant) and isinstance(s.value.value, str):
            return self.B(rest)
        if isinstance(s, ast.Raise):
            exc = s.exc.func.id if isinstance(s.exc, ast.Call) and isinstance(s.exc.func, ast.Name) else None
            if exc not in ("ValueError", "TypeError", "IndexError"): raise Untranslatable("raise %s" % ast.unparse(s.exc)[:30])
            return ".error .%s" % exc
        if isinstance(s, ast.Expr) and self.spec.init and isinstance(s.value, ast.Call) and not rest \
                and ast.unparse(s.value.func) == "super(weekday, self).__init__" and len(s.value.args) == 2:
            pre = []
            a, ta = self.E(s.value.args[0], pre); b, tb = self.E(s.value.args[1], pre)
            if (ta, tb) != ("Int", "OptInt"): raise Untranslatable("base constructor arguments %s, %s" % (ta, tb))
            return self.wrap(pre, "wdInit %s %s" % (a, b))        # the base class constructor builds the object
        if isinstance(s, ast.Return):
            pre = []
            v = s.value
            if self.spec.ret == "WdSame":
                if isinstance(v, ast.Name) and v.id == "self":
                    return ".ok (self, true)"                   # the same object
                t, ty = self.E(v, pre)
                if ty != "Wd": raise Untranslatable("__call__ returns %s" % ty)
                return self.wrap(pre, ".ok (%s, false)" % t)
            if isinstance(v, ast.Tuple) and len(v.elts) == 2 and ast.unparse(v.elts[0]) == "self.__class__":
                v = v.elts[1]                                   # __reduce__: (class, args) -> args
            t, ty = self.E(v, pre)
            if ty != self.spec.ret: raise Untranslatable("return of %s, declared %s" % (ty, self.spec.ret))
            return self.wrap(pre, ".ok %s" % t)
        if isinstance(s, ast.If):
            pre = []
            c = self.C(s.test, pre)
            a = self.B(s.body + rest) if not self.returns(s.body) else self.B(s.body)
            b = self.B(s.orelse + rest) if not self.returns(s.orelse) else self.B(s.orelse)
            return self.wrap(pre, "(if %s then\n%s\nelse\n%s)" % (c, a, b))
        if isinstance(s, ast.Assign) and len(s.targets) == 1:
            tg = s.targets[0]
            pre = []
            t, ty = self.E(s.value, pre)
            if isinstance(tg, ast.Attribute) and isinstance(tg.value, ast.Name) and tg.value.id == "self" and self.spec.init:
                want = {"weekday": "Int", "n": "OptInt"}.get(tg.attr)
                if want is None or ty != want: raise Untranslatable("self.%s = <%s>" % (tg.attr, ty))
                self.slots[tg.attr] = t
                return self.wrap(pre, self.B(rest))
            if isinstance(tg, ast.Name):
                self.types[tg.id] = ty
                return self.wrap(pre, "let %s := %s\n%s" % (tg.id, t, self.B(rest)))
            raise Untranslatable("assignment target")
        if isinstance(s, ast.Try):
            if len(s.handlers) != 1 or s.orelse or s.finalbody or ast.unparse(s.handlers[0].type) != "AttributeError" \
                    or self.types.get("other") != "Other":
                raise Untranslatable("try statement")
            handler = self.B(s.handlers[0].body + rest) if not self.returns(s.handlers[0].body) else self.B(s.handlers[0].body)
            self.other_is_wd = True
            body = self.B(s.body + rest) if not self.returns(s.body) else self.B(s.body)
            self.other_is_wd = False
            # the only AttributeError of the fragment: reading .weekday / .n of an object that lacks them
            return "(match other with\n| .noAttr =>\n%s\n| .wd o =>\n%s)" % (handler, body)
        raise Untranslatable("statement %s" % type(s).__name__)

    def returns(self, stmts):
        if not stmts: return False
        last = stmts[-1]
        if isinstance(last, (ast.Return, ast.Raise)): return True
        if isinstance(last, ast.If): return self.returns(last.body) and self.returns(last.orelse)
        return False


def translate_class(src_root, relfile, cls, specs, check_slots):
    path = os.path.join(src_root, relfile)
    tree = ast.parse(open(path).read())
    klass = find_function(tree, cls)
    if check_slots:
        slots = None
        for n in klass.body:
            if isinstance(n, ast.Assign) and ast.unparse(n.targets[0]) == "__slots__":
                slots = ast.literal_eval(n.value)
        if slots != ["weekday", "n"]:
            raise Untranslatable("weekday.__slots__ = %r (the object is modelled as the pair of exactly these two slots)" % (slots,))
    methods = {n.name for n in klass.body if isinstance(n, ast.FunctionDef)}
    known = {sp.method for sp in specs}
    if methods - known:
        raise Untranslatable("%s:%s has methods outside the translated set: %s" % (relfile, cls, sorted(methods - known)))
    parts, fps = [], {}
    for sp in specs:
        fn = find_function(tree, cls + "." + sp.method)
        pyparams = [a.arg for a in fn.args.args if a.arg != "self"]
        if pyparams != [p for p, _ in sp.params]:
            raise Untranslatable("%s parameters %s" % (sp.method, pyparams))
        tr = Tr(sp)
        body = tr.B(fn.body)
        params = ("(ctor : Int → Option Int → Py.R WdPy.Wd) " if tr.uses_ctor else "") + ("" if sp.init else "(self : WdPy.Wd) ") + " ".join("(%s : %s)" % (p, LEAN_TY[t]) for p, t in sp.params)
        parts.append("/-- translated from `%s:%s.%s` -/\ndef %s %s: Py.R (%s) :=\n%s\n" % (
            relfile, cls, sp.method, sp.leanname, params + (" " if params.strip() else ""), LEAN_TY[sp.ret], indent(body)))
        # key = <qualified name>/<lean name> (the form tools/coverage_map.py matches against the source's functions)
        fps["%s.%s/%s" % (cls, sp.method, sp.leanname)] = hashlib.sha256(ast.dump(fn).encode()).hexdigest()[:16]
    return parts, fps


def translate_module(src_root):
    p1, f1 = translate_class(src_root, "_common.py", "weekday", WD_SPECS, True)
    p2, f2 = translate_class(src_root, "rrule.py", "weekday", RR_SPECS, False)
    f1.update(f2)
    return "\n".join(p1 + p2), f1


def indent(text):
    out, depth = [], 1
    for line in text.split("\n"):
        s = line.strip()
        if not s: continue
        lead = len(s) - len(s.lstrip(")"))
        out.append("  " * max(1, depth - lead) + s)
        depth += s.count("(") - s.count(")")
    return "\n".join(out)


if __name__ == "__main__":
    import sys
    print(translate_module(os.path.join(sys.argv[1] if len(sys.argv) > 1 else "/repo", "src", "dateutil"))[0])
