"""rrgenlib.py — per-run differential validation of the RrPy translator (harness/translate_rr.py): the functions
re-translated from src/dateutil/rrule.py into Generated/RRuleKernels.lean (driver ops `rrgen.*`, Ops/RRuleGen.lean)
against the METHODS of the implementation:
  rrule.__construct_byset / rrule.__mod_distance (called unbound on a stand-in carrying `_interval`),
  _iterinfo.rebuild (a sequence of (year, month) calls on ONE fresh object per rule: the lastyear / lastmonth caching is
  exercised; every slot compared after every call), _iterinfo.ydayset / mdayset / wdayset / ddayset and
  htimeset / mtimeset / stimeset on rules drawn by the C01 generators (plus rules biased to BYWEEKNO / nth BYDAY / BYEASTER).
Called from ONE line of harness/props/c01.py's correspondence."""
import types, warnings
from vlib import ilist, oint, exc_kind

YEARS = [1, 2, 4, 100, 400, 1583, 1600, 1900, 1996, 1997, 1999, 2000, 2004, 2008, 2015, 2020, 2021, 2024, 2026, 2032, 2100,
         4099, 9998, 9999]


def _kernels_ok(ctx):
    rep = (ctx.lean.gen_report.get("kernels") or {}).get("RRuleKernels") or {}
    if not rep.get("ok"):
        ctx.note("RRuleKernels not regenerated (%s): translated-function validation skipped" % rep.get("error"))
        return False
    return True


def _compare(ctx, reqs, exp, label):
    got = ctx.driver(reqs)
    for q, e, g in zip(reqs, exp, got):
        if e != g:
            ctx.mismatch(q.split()[0], q[:400], e[:600], g[:600])
        else:
            ctx.traces += 1
            if g.startswith("err") or "!" in g:
                ctx.count(label + "_error_outcomes")
    ctx.count(label, len(reqs))


def _err(ex):
    return "err " + exc_kind(ex)


# ---------------------------------------------------------------------------------------------- formats (Ops/RRuleGen.lean)

def show_mask(m):
    if m is None:
        return "-"
    return "%d:%s" % (len(m), ",".join(str(i) if v == 1 else "%d=%d" % (i, v) for i, v in enumerate(m) if v != 0))


def show_table(m):
    return "%d/%d" % (len(m), sum((i + 1) * v for i, v in enumerate(m)))


def show_ii(ii):
    return " ".join([oint(ii.lastyear), oint(ii.lastmonth), str(ii.yearlen), str(ii.nextyearlen), str(ii.yearordinal),
                     str(ii.yearweekday), show_table(ii.mmask), show_table(ii.mdaymask), show_table(ii.nmdaymask),
                     show_table(ii.wdaymask), ilist(ii.mrange), show_mask(ii.wnomask), show_mask(ii.nwdaymask),
                     show_mask(ii.eastermask)])


def show_dayset(t):
    d, s, e = t
    return "ok %d %d %d [%s]" % (s, e, len(d), ",".join("%d:%d" % (i, v) for i, v in enumerate(d) if v is not None))


def show_times(ts):
    return "ok " + ilist([x for t in ts for x in (t.hour, t.minute, t.second)])


# ---------------------------------------------------------------------------------------------- the helpers of rrule

def validate_helpers(ctx, n):
    from dateutil import rrule as R
    rng = ctx.subrng("rrgen-helpers")
    cb = R.rrule._rrule__construct_byset
    md = R.rrule._rrule__mod_distance
    reqs, exp = [], []
    for _ in range(n):
        base = rng.choice([24, 60, 60, 24, 7, 12, 1, rng.randint(1, 90)])
        if rng.random() < 0.02:
            base = 0
        k = rng.choice([1, 2, 3, 4, 5, 6, 8, 10, 12, 15, 18, 20, 24, 30, 36, 45, 48, 60, 90, 120, 7, 11, 13, 0, -1, -4, -6, rng.randint(-50, 400)])
        pool = list(range(-3, max(base, 1) + 3))
        byxxx = [rng.choice(pool) for _ in range(rng.randint(0, 5))]
        start = rng.randint(-2, max(base, 1) + 1)
        stub = types.SimpleNamespace(_interval=k)
        try:
            e = "ok " + ilist(sorted(cb(stub, start, tuple(byxxx), base)))
        except Exception as ex:
            e = _err(ex)
        reqs.append("rrgen.byset %d %d %s %d" % (k, start, ilist(byxxx), base)); exp.append(e)
        try:
            r = md(stub, start, tuple(byxxx), base)
            e = "ok -" if r is None else "ok %d %d" % r
        except Exception as ex:
            e = _err(ex)
        reqs.append("rrgen.moddist %d %d %s %d" % (k, start, ilist(byxxx), base)); exp.append(e)
    _compare(ctx, reqs, exp, "rrgen_helpers")


# ---------------------------------------------------------------------------------------------- _iterinfo

def _rules(ctx, c01, n):
    """(case, rule object) pairs: the C01 generator plus rules biased to the parts `rebuild` computes masks for"""
    rng = ctx.subrng("rrgen-rules")
    cases = c01.gen_cases(ctx, "rrgen", n)
    for _ in range(n):
        c = c01.gen_case(rng, freqs=[0, 0, 1, 1, 2, 3])
        c01.plan_until(c, rng)
        u = rng.random()
        if u < 0.4:
            c["byweekno"] = sorted(set(rng.choice([1, 1, 2, 10, 20, 26, 51, 52, 53, -1, -2, -52, -53, 54, 0, rng.randint(-54, 54)]) for _ in range(rng.randint(1, 3))))
        elif u < 0.7:
            c["byweekday"] = [[rng.randint(0, 6), rng.choice([0, 1, 2, 3, 4, 5, -1, -2, -3, -4, -5, 6, -6, 53, -53, rng.randint(-54, 54)])] for _ in range(rng.randint(1, 3))]
            if rng.random() < 0.5 and c["freq"] == 0:
                c["bymonth"] = sorted(set(rng.randint(1, 12) for _ in range(rng.randint(1, 3))))
        else:
            c["byeaster"] = [rng.choice([0, 0, 1, -1, -2, -46, 39, 49, 60, -80, 250, 300, -100, rng.randint(-400, 400)]) for _ in range(rng.randint(1, 3))]
        cases.append(c)
    out = []
    for c in cases:
        try:
            out.append((c, c01.build(c)))
        except Exception:
            ctx.count("rrgen_ctor_error_skipped")
    return out


def validate_iterinfo(ctx, c01, n):
    from dateutil import rrule as R
    rng = ctx.subrng("rrgen-iterinfo")
    rules = _rules(ctx, c01, n)
    reqs, exp = [], []
    for c, r in rules:
        w = c01.wire(c)
        y0 = c["dtstart"][0]
        # --- rebuild: a call sequence on one object
        seq = []
        y, m = y0, c["dtstart"][1]
        for _ in range(rng.randint(2, 6)):
            seq.append((y, m))
            u = rng.random()
            if u < 0.25:
                pass                                  # the same (year, month) again: nothing recomputed
            elif u < 0.5:
                m = rng.randint(1, 12)                # same year, another month
            elif u < 0.8:
                y = y + rng.choice([1, 1, 1, -1, 2, 4]); m = rng.randint(1, 12)
            else:
                y = rng.choice(YEARS + [0, 10000, rng.randint(1, 9999)]); m = rng.choice([1, 12, rng.randint(1, 12), 0, 13])
        ii = R._iterinfo(r)
        outs = []
        for (y, m) in seq:
            try:
                ii.rebuild(y, m)
                outs.append(show_ii(ii))
            except Exception as ex:
                outs.append("!" + exc_kind(ex))
                break
        reqs.append("rrgen.rebuild %s %s" % (w, " ".join("%d %d" % p for p in seq))); exp.append("ok " + ";".join(outs))
        # --- day sets after rebuild(y0, m0)
        m0 = c["dtstart"][1]
        ii = R._iterinfo(r)
        try:
            ii.rebuild(y0, m0)
            ok = True
        except Exception as ex:
            ok = False
            reqs.append("rrgen.dayset %s %d %d 0 %d 1 1" % (w, y0, m0, y0)); exp.append("err-rebuild " + exc_kind(ex))
        if ok:
            for kind, f in enumerate((ii.ydayset, ii.mdayset, ii.wdayset, ii.ddayset)):
                u = rng.random()
                yy = y0 if u < 0.9 else y0 + rng.choice([1, -1])
                mm = rng.randint(1, 12) if rng.random() < 0.95 else rng.choice([0, 13, -1])
                dd = rng.choice([1, 2, 15, 27, 28, 29, 30, 31, rng.randint(1, 31)])
                if kind == 2 and rng.random() < 0.3:
                    mm, dd = 12, rng.randint(22, 31)          # cross-year week
                try:
                    t = f(yy, mm, dd)
                    e = show_dayset(t)
                except Exception as ex:
                    e = _err(ex)
                reqs.append("rrgen.dayset %s %d %d %d %d %d %d" % (w, y0, m0, kind, yy, mm, dd)); exp.append(e)
        # --- time sets
        ii = R._iterinfo(r)
        for kind, f in enumerate((ii.htimeset, ii.mtimeset, ii.stimeset)):
            h = rng.choice([0, 1, 9, 12, 23, rng.randint(0, 23)]) if rng.random() < 0.93 else rng.choice([24, -1, 25])
            mi = rng.choice([0, 30, 59, rng.randint(0, 59)]) if rng.random() < 0.93 else rng.choice([60, -1])
            s = rng.choice([0, 30, 59, rng.randint(0, 59)]) if rng.random() < 0.93 else rng.choice([60, -1, 61])
            try:
                e = show_times(f(h, mi, s))
            except Exception as ex:
                e = _err(ex)
            reqs.append("rrgen.timeset %s %d %d %d %d" % (w, kind, h, mi, s)); exp.append(e)
    _compare(ctx, reqs, exp, "rrgen_iterinfo")


def validate_init(ctx, c01, n):
    """the translated sections of rrule.__init__ (Gen.init_*) against the attributes of the constructed rule"""
    cases = c01.gen_cases(ctx, "rrgen-init", n, malformed_rate=0.2)
    reqs, exp = [], []
    def ol(v):
        return "-" if v is None else ilist(sorted(v) if isinstance(v, (set, frozenset)) else list(v))
    for c in cases:
        if c.get("fwd") is not None:
            continue
        nodef = all(c.get(k) is None for k in ("byweekno", "byyearday", "bymonthday", "byweekday", "byeaster"))
        try:
            r = c01.build(c)
        except Exception as ex:
            reqs.append("rrgen.init " + c01.wire(c)); exp.append(("err", exc_kind(ex)))
            continue
        e = "ok " + " ".join([
            ol(r._bysetpos), ol(r._bymonth), ol(r._byyearday), ol(r._byeaster),
            ilist(r._bymonthday) + "/" + ilist(r._bynmonthday), ol(r._byweekno),
            ol(r._byweekday) + "/" + ("-" if r._bynweekday is None else ilist([x for q in r._bynweekday for x in q])),
            ol(r._byhour), ol(r._byminute), ol(r._bysecond),
            "-" if r._timeset is None else ilist([x for t in r._timeset for x in (t.hour, t.minute, t.second)])])
        reqs.append("rrgen.init " + c01.wire(c)); exp.append(("ok", e))
    # the whole translated constructor (Gen.init) against the normalised state of the implementation
    wreqs, wexp = [], []
    for c in cases:
        try:
            r = c01.build(c)
            wexp.append("ok " + c01.impl_rule_dump(r))
        except Exception as ex:
            if not isinstance(ex, ValueError) or "UTC" in str(ex):
                continue                  # the awareness check is not part of the translation
            wexp.append("err " + exc_kind(ex))
        wreqs.append("rrgen.initwhole " + c01.wire(c))
    _compare(ctx, wreqs, wexp, "rrgen_initwhole")
    got = ctx.driver(reqs)
    for q, (kind, e), g in zip(reqs, exp, got):
        if kind == "ok":
            if e != g:
                ctx.mismatch("rrgen.init", q[:400], e[:600], g[:600])
            else:
                ctx.traces += 1
        else:
            # the constructor raised: a section raises the same kind, or every section is fine and the error comes from a
            # part that is not translated (INTERVAL < 1, datetime.time(...) in the timeset loop, the UNTIL / DTSTART check)
            if g.startswith("err "):
                if g != "err " + e:
                    ctx.mismatch("rrgen.init", q[:400], "err " + e, g[:600])
                else:
                    ctx.traces += 1; ctx.count("rrgen_init_error_outcomes")
            else:
                ctx.count("rrgen_init_error_elsewhere")
    ctx.count("rrgen_init", len(reqs))


def validate(ctx, c01):
    if not _kernels_ok(ctx):
        return
    with warnings.catch_warnings():
        warnings.simplefilter("ignore")
        validate_helpers(ctx, ctx.budget(1200, 12000))
        validate_iterinfo(ctx, c01, ctx.budget(600, 6000))
        validate_init(ctx, c01, ctx.budget(1500, 15000))
