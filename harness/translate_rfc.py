#!/usr/bin/env python3
"""
translate_rfc.py — Python AST -> Lean 4 for `tzical._parse_rfc` (tz/tz.py), the VTIMEZONE line parser ("RfcPy": the part of
ObjPy that deals with lists of text lines and a record of parser state).  Registered from translate_obj.py / gen.py; writes
`Generated/TzRfcKernels.lean` with three definitions:

  Gen.tzical_parseRfc_unfold  the BODY of the unfolding `while i < len(lines):` loop, on the carried pair (lines, i)
  Gen.tzical_parseRfc_line    the BODY of `for line in lines:` on the record of the locals that live across iterations
                              (`ICal.PState`: tzid comps invtz comptype founddtstart tzoffsetfrom tzoffsetto rrulelines
                              tzname, and `vtz` for `self._vtz`), everything else a `let`
  Gen.tzical_parseRfc         the function: splitlines, the empty check, the while loop (`RfcPy.whileFuel`, fuel =
                              `len(lines)` at loop entry — `C17.gen_unfold_terminates` proves it never runs out), the
                              initialisations, `List.foldlM` of the line body

Translation scheme
  x = e (x a carried local)            ↦ let st := { st with x := ⟦e⟧ }          x = e (other)   ↦ let x := ⟦e⟧
  a, b = X.split(c, 1)                 ↦ Except.bind (RfcPy.split1 ⟦X⟧ c) fun (a, b) => …      (ValueError without separator)
  X.split(c) / X.upper() / X.rstrip() / X.splitlines() / X[k:] / X[i] / len(X)   ↦ ICal.splitOnChar / upper / rstrip / splitLines / drop / lgetR|sget / length
  if c: A else: B ; rest               ↦ if ⟦c⟧ then ⟦A; rest⟧ else ⟦B; rest⟧   when A or B always leaves (raise / continue);
                                         otherwise a join over the names assigned in A, B
  raise ValueError(args)               ↦ the effects of ⟦args⟧ (an index may raise first), then .error .ValueError
  continue                             ↦ .ok st
  for x in L: (only `if …: raise`)     ↦ Except.bind (RfcPy.forM_ ⟦L⟧ fun x => …) fun _ => …
  L.append(x)                          ↦ L := L ++ [x]
  del L[i] / L[i] += X                 ↦ RfcPy.ldel / RfcPy.laddAt (IndexError outside the list)
  self._parse_offset(v)                ↦ tzical_parseOffset v   (translated in TzObjKernels)
  rrule.rrulestr("\\n".join(L), compatible=True, ignoretz=True, cache=True)
                                       ↦ RfcPy.rrulestr rrulestr L : the call may raise; the rule set it returns is represented
                                         by the lines it was read from (and by the `_interval` of every member of
                                         `rr._rrule + rr._exrule`, should `_parse_rfc` read them)
  rr._rrule + rr._exrule               ↦ rr.intervals (a rule object is represented by its `_interval`; `r._interval` ↦ r)
  _tzicalvtzcomp(f, t, isdst, name, rr) ↦ RfcPy.mkComp … (TypeError for a None offset, as timedelta(seconds=None))
  self._vtz[tzid] = _tzicalvtz(tzid, comps) ↦ vtz := ICal.putVtz vtz (RfcPy.mkVtz tzid comps)   (insertion-ordered dict)
Locals first bound inside a component (founddtstart … tzname) start at the record's defaults; Python would raise
UnboundLocalError if one were read earlier (they are read only under `value == comptype` / `elif comptype:`).
`tzical.__init__` is checked to set `self._vtz = {}` before it calls `_parse_rfc`.
Anything else raises Untranslatable(<construct>): a broken tie for C17.

Second group (`translate_objects`): the small functions around the parsed zones, into the same generated file —
  tzical.get / tzical.keys          on `self._vtz` (an insertion-ordered association list `List ICal.VTz`): `len(d)`, `next(iter(d))`
                                    (first key, StopIteration when empty), `d.get(k)` (None when absent), `list(d.keys())`
  _tzicalvtzcomp.__init__           a constructor: each `self.a = e` is a field of the record `RfcPy.CompObj`; `datetime.timedelta(seconds=n)`
                                    = ObjPy.tdOfSeconds (OverflowError beyond the timedelta range)
  _tzicalvtz.__init__               record `RfcPy.VtzObj` (`super().__init__()` and `_thread.allocate_lock()` are opaque: skipped / unit)
  tzrangebase.__ne__                `return not (self == other)` over the translated `tzrange.__eq__`
  tzrangebase.__init__              `raise NotImplementedError(...)`
  _tzinfo._fold                     `getattr(dt, 'fold', 0)` = the datetime's fold (Python >= 3.6)
  enfold (tz/_common.py)            the definition that is live on this interpreter (the branch of the module-level
                                    `if hasattr(datetime, 'fold'):` is decided at translation time): `dt.replace(fold=fold)` =
                                    RfcPy.replaceFold (ValueError unless fold is 0 or 1)
  tzname_in_python2                 the decorator: with `six.PY2` false (decided at translation time) it returns its argument
  tzical.__init__                   the argument is `RfcPy.FileArg` (a path, opened with `open(fileobj, 'r')`, or a stream wrapped in
                                    `_nullcontext`; either way what `fobj.read()` yields, or the exception of open/read); `self._s` (only
                                    used by __repr__) is not kept; `self._vtz = {}` must precede the `with`; the body of the `with` must be
                                    `self._parse_rfc(fobj.read())`
  tzrange._dst_base_offset          the property returns `self._dst_base_offset_`; the statement of `tzrange.__init__` that sets it
                                    (`self._dst_offset - self._std_offset`, a timedelta subtraction) is translated with it
Third group (`translate_factory_inits`, tz/_factories.py): the metaclass constructors `_TzSingleton.__init__`, `_TzOffsetFactory.__init__`,
`_TzStrFactory.__init__` as the initial shared state `Fact.Glob` of the factory machine (C18): `weakref.WeakValueDictionary()` = the
empty weak map, `OrderedDict()` = the empty strong cache, the integer literal = its capacity, `_thread.allocate_lock()` = a free lock,
`cls.__instance = None` = an empty singleton slot; `super(...).__init__(*args, **kwargs)` (type.__init__) sets nothing.
"""
import ast, os, hashlib
from translate import Untranslatable, find_function

STATE = {"tzid": "OptCStr", "comps": "CompList", "invtz": "Bool", "comptype": "OptCStr", "founddtstart": "Bool",
         "tzoffsetfrom": "OptInt", "tzoffsetto": "OptInt", "rrulelines": "CStrList", "tzname": "OptCStr", "self__vtz": "VtzList"}
FIELD = {k: k for k in STATE}
FIELD["self__vtz"] = "vtz"
LOCALS = {"s": "CStr", "lines": "CStrList", "i": "Int", "line": "CStr", "name": "CStr", "value": "CStr", "parms": "CStrList",
          "parm": "CStr", "rr": "OptRR", "comp": "Comp", "r": "Int", "msg": "CStr"}
LEAN_TY = {"CStr": "List Char", "CStrList": "List (List Char)", "Int": "Int", "Bool": "Bool", "OptCStr": "Option (List Char)",
           "OptInt": "Option Int", "OptRR": "Option RfcPy.RR", "RR": "RfcPy.RR", "Comp": "ICal.Comp", "CompList": "List ICal.Comp",
           "VtzList": "List ICal.VTz", "IntList": "List Int", "Unit": "Unit", "OptVtz": "Option ICal.VTz", "Vtz": "ICal.VTz",
           "TD": "Int", "OptRRObj": "Option RfcPy.RR", "KeyList": "List (DtPy.Dt × Int)", "OptZCompList": "List (Option ICal.ZComp)",
           "Dt": "DtPy.Dt", "Zone": "TzStr.Zone"}
ELEM = {"CStrList": "CStr", "IntList": "Int", "CompList": "Comp"}


def char_lit(c):
    if 32 <= ord(c) < 127 and c not in "'\\":
        return "'%s'" % c
    return "(Char.ofNat %d)" % ord(c)


def str_lit(s):
    return "[" + ", ".join(char_lit(c) for c in s) + "]"


class RfcTr:
    def __init__(self, mode):
        self.mode = mode          # "line": carried locals live in `st`; "plain": all locals are lets
        self.types = dict(LOCALS)
        self.tmp = 0
        self.bound = set()

    def fresh(self):
        self.tmp += 1
        return "t%d" % self.tmp

    # ---------------------------------------------------------------- names
    def ref(self, n):
        if self.mode == "line" and n in STATE:
            return "st.%s" % FIELD[n], STATE[n]
        if n in self.types:
            return n, self.types[n]
        raise Untranslatable("name %s" % n)

    def self_attr(self, e, attr=None):
        return isinstance(e, ast.Attribute) and isinstance(e.value, ast.Name) and e.value.id == "self" and (attr is None or e.attr == attr)

    def coerce(self, t, ty, want):
        if ty == want: return t
        if ty == "StrLit" and want == "CStr": return str_lit(t)
        if ty == "StrLit" and want == "OptCStr": return "(some %s)" % str_lit(t)
        if ty == "None" and want.startswith("Opt"): return "(none : %s)" % LEAN_TY[want]
        if want == "Opt" + ty: return "(some %s)" % t
        if ty == "EmptyList" and (want in ELEM or want in ("KeyList", "OptZCompList")): return "([] : %s)" % LEAN_TY[want]
        if ty == "Bool" and want == "Bool": return t
        raise Untranslatable("%s where %s is expected" % (ty, want))

    # ---------------------------------------------------------------- expressions: (binds, term, type)
    def expr(self, e):
        if isinstance(e, ast.Constant):
            v = e.value
            if v is None: return [], "none", "None"
            if v is True or v is False: return [], ("true" if v else "false"), "Bool"
            if isinstance(v, int): return [], ("(%d)" % v if v < 0 else str(v)), "Int"
            if isinstance(v, str): return [], v, "StrLit"
            raise Untranslatable("constant %r" % (v,))
        if isinstance(e, ast.Name):
            t, ty = self.ref(e.id)
            return [], t, ty
        if isinstance(e, ast.List) and not e.elts:
            return [], "[]", "EmptyList"
        if isinstance(e, ast.BinOp) and isinstance(e.op, (ast.Add, ast.Sub)):
            bl, l, tl = self.expr(e.left); br, r, tr = self.expr(e.right)
            if tl == tr == "Int":
                return bl + br, "(%s %s %s)" % (l, "+" if isinstance(e.op, ast.Add) else "-", r), tl
            if tl == tr == "TD":            # timedelta arithmetic: OverflowError when the result leaves the timedelta range
                n = self.fresh()
                return bl + br + [(n, "RfcPy.td%s %s %s" % ("Add" if isinstance(e.op, ast.Add) else "Sub", l, r))], n, "TD"
            if isinstance(e.op, ast.Add) and tr == "OptCStr" and tl in ("CStr", "StrLit"):      # str + None: TypeError
                n = self.fresh()
                br, r, tr = br + [(n, "RfcPy.needStr %s" % r)], n, "CStr"
            if isinstance(e.op, ast.Add) and {tl, tr} <= {"CStr", "StrLit"}:
                return bl + br, "(%s ++ %s)" % (self.coerce(l, tl, "CStr"), self.coerce(r, tr, "CStr")), "CStr"
            if isinstance(e.op, ast.Add) and tl == tr == "IntList":
                return bl + br, "(%s ++ %s)" % (l, r), "IntList"
            raise Untranslatable("operator on %s, %s" % (tl, tr))
        if isinstance(e, ast.BinOp) and isinstance(e.op, ast.Mod) and isinstance(e.left, ast.Constant) and isinstance(e.left.value, str):
            # "…%s…" % (a, b): only the effects of the arguments matter (the text goes into an exception message)
            args = e.right.elts if isinstance(e.right, ast.Tuple) else [e.right]
            if e.left.value.count("%s") != len(args) or e.left.value.count("%") != len(args):
                raise Untranslatable("format string")
            binds = []
            for a in args:
                b, t, ty = self.expr(a)
                if ty not in ("CStr", "StrLit"): raise Untranslatable("format argument of type %s" % ty)
                binds += b
            return binds, "[]", "CStr"
        if isinstance(e, ast.Compare) or isinstance(e, ast.BoolOp) or (isinstance(e, ast.UnaryOp) and isinstance(e.op, ast.Not)):
            b, c = self.cond(e)
            return b, "(decide %s)" % c, "Bool"
        if isinstance(e, ast.Subscript):
            b, t, ty = self.expr(e.value)
            sl = e.slice
            if isinstance(sl, ast.Slice):
                if sl.step is not None or sl.upper is not None or not (isinstance(sl.lower, ast.Constant) and isinstance(sl.lower.value, int)
                                                                         and sl.lower.value >= 0):
                    raise Untranslatable("slice shape")
                if ty not in ("CStr", "CStrList"): raise Untranslatable("slice of %s" % ty)
                return b, "(%s.drop %d)" % (t, sl.lower.value), ty
            bi, i, ti = self.expr(sl)
            if ti != "Int": raise Untranslatable("index of type %s" % ti)
            n = self.fresh()
            if ty == "CStr":
                return b + bi + [(n, "ObjPy.sget %s %s" % (t, i))], n, "CStr"
            if ty in ELEM:
                return b + bi + [(n, "DtPy.lgetR %s %s" % (t, i))], n, ELEM[ty]
            raise Untranslatable("subscript of %s" % ty)
        if isinstance(e, ast.Attribute):
            if self.self_attr(e, "_vtz"):
                return [], self.ref("self__vtz")[0], "VtzList"
            if self.self_attr(e) and ("self_" + e.attr) in self.types:
                return [], "self_" + e.attr, self.types["self_" + e.attr]
            b, t, ty = self.expr(e.value)
            if ty == "OptRR" and e.attr in ("_rrule", "_exrule"):      # attribute of a possibly-None rule set: AttributeError
                n = self.fresh()
                return b + [(n, "DtPy.attr %s" % t)], "%s.%s" % (n, e.attr[1:] + "Intervals"), "IntList"
            if ty == "Int" and e.attr == "_interval" and isinstance(e.value, ast.Name) and e.value.id == "r":
                return b, t, "Int"
            raise Untranslatable("attribute .%s of %s" % (e.attr, ty))
        if isinstance(e, ast.Call):
            return self.call(e)
        raise Untranslatable(type(e).__name__)

    def call(self, e):
        f = e.func
        if isinstance(f, ast.Name) and f.id == "len" and len(e.args) == 1 and not e.keywords:
            b, t, ty = self.expr(e.args[0])
            if ty in ("CStr", "CStrList", "VtzList"): return b, "((%s).length : Int)" % t, "Int"
        if isinstance(f, ast.Name) and f.id == "next" and len(e.args) == 1 and not e.keywords and isinstance(e.args[0], ast.Call) \
                and isinstance(e.args[0].func, ast.Name) and e.args[0].func.id == "iter" and len(e.args[0].args) == 1:
            b, t, ty = self.expr(e.args[0].args[0])
            if ty == "VtzList":
                n = self.fresh()
                return b + [(n, "RfcPy.firstKey %s" % t)], n, "CStr"
        if isinstance(f, ast.Name) and f.id == "list" and len(e.args) == 1 and not e.keywords and isinstance(e.args[0], ast.Call) \
                and isinstance(e.args[0].func, ast.Attribute) and e.args[0].func.attr == "keys" and not e.args[0].args:
            b, t, ty = self.expr(e.args[0].func.value)
            if ty == "VtzList": return b, "(RfcPy.dictKeys %s)" % t, "CStrList"
        if isinstance(f, ast.Name) and f.id == "getattr" and len(e.args) == 3 and isinstance(e.args[1], ast.Constant) and e.args[1].value == "fold" \
                and isinstance(e.args[2], ast.Constant) and e.args[2].value == 0:
            b, t, ty = self.expr(e.args[0])
            if ty == "Dt": return b, "(DtPy.foldOf %s)" % t, "Int"          # datetimes always have `fold` (Python >= 3.6)
        if isinstance(f, ast.Attribute) and isinstance(f.value, ast.Name) and f.value.id == "datetime" and f.attr == "timedelta" \
                and not e.args and len(e.keywords) == 1 and e.keywords[0].arg == "seconds":
            b, t, ty = self.expr(e.keywords[0].value)
            if ty != "Int": raise Untranslatable("timedelta(seconds=%s)" % ty)
            n = self.fresh()
            return b + [(n, "ObjPy.tdOfSeconds %s" % t)], n, "TD"
        if isinstance(f, ast.Attribute) and isinstance(f.value, ast.Name) and f.value.id == "_thread" and f.attr == "allocate_lock" and not e.args:
            return [], "()", "Unit"
        if isinstance(f, ast.Attribute) and f.attr == "get" and len(e.args) == 1 and not e.keywords:
            b, t, ty = self.expr(f.value)
            if ty == "VtzList":
                bk, k, tk = self.expr(e.args[0])
                return b + bk, "(RfcPy.dictGet %s %s)" % (t, self.coerce(k, tk, "OptCStr")), "OptVtz"
        if isinstance(f, ast.Name) and f.id == "_tzicalvtzcomp" and len(e.args) == 5 and not e.keywords:
            binds, args = [], []
            for a, want in zip(e.args, ("OptInt", "OptInt", "Bool", "OptCStr", "OptRR")):
                b, t, ty = self.expr(a)
                binds += b; args.append(self.coerce(t, ty, want))
            n = self.fresh()
            return binds + [(n, "RfcPy.mkComp %s" % " ".join(args))], n, "Comp"
        if isinstance(f, ast.Name) and f.id == "_tzicalvtz" and len(e.args) == 2 and not e.keywords:
            ba, a, ta = self.expr(e.args[0]); bc, c, tc = self.expr(e.args[1])
            return ba + bc, "(RfcPy.mkVtz %s %s)" % (self.coerce(a, ta, "OptCStr"), self.coerce(c, tc, "CompList")), "Vtz"
        if isinstance(f, ast.Attribute):
            if self.self_attr(f, "_parse_offset") and len(e.args) == 1 and not e.keywords:
                b, t, ty = self.expr(e.args[0])
                n = self.fresh()
                return b + [(n, "tzical_parseOffset %s" % self.coerce(t, ty, "CStr"))], n, "Int"
            if isinstance(f.value, ast.Name) and f.value.id == "rrule" and f.attr == "rrulestr":
                kws = {k.arg: k.value for k in e.keywords}
                ok = len(e.args) == 1 and set(kws) == {"compatible", "ignoretz", "cache"} and \
                    all(isinstance(v, ast.Constant) and v.value is True for v in kws.values())
                a = e.args[0] if e.args else None
                ok = ok and isinstance(a, ast.Call) and isinstance(a.func, ast.Attribute) and a.func.attr == "join" \
                    and isinstance(a.func.value, ast.Constant) and a.func.value.value == "\n" and len(a.args) == 1
                if not ok: raise Untranslatable("rrulestr call shape")
                b, t, ty = self.expr(a.args[0])
                if ty != "CStrList": raise Untranslatable("rrulestr of %s" % ty)
                n = self.fresh()
                return b + [(n, "RfcPy.rrulestr rrulestr %s" % t)], n, "RR"
            b, t, ty = self.expr(f.value)
            if ty == "CStr" and not e.keywords:
                if f.attr == "splitlines" and not e.args: return b, "(ICal.splitLines %s)" % t, "CStrList"
                if f.attr == "rstrip" and not e.args: return b, "(ICal.rstrip %s)" % t, "CStr"
                if f.attr == "upper" and not e.args: return b, "(ICal.upper %s)" % t, "CStr"
                if f.attr == "split" and len(e.args) == 1 and isinstance(e.args[0], ast.Constant) and isinstance(e.args[0].value, str) \
                        and len(e.args[0].value) == 1:
                    return b, "(ICal.splitOnChar %s %s)" % (char_lit(e.args[0].value), t), "CStrList"
        raise Untranslatable("call %s" % ast.dump(f)[:80])

    # ---------------------------------------------------------------- conditions: (binds, Prop text)
    def cond(self, e):
        if isinstance(e, ast.UnaryOp) and isinstance(e.op, ast.Not):
            b, c = self.cond(e.operand)
            return b, "(¬ %s)" % c
        if isinstance(e, ast.BoolOp):
            parts, binds = [], []
            for k, v in enumerate(e.values):
                b, c = self.cond(v)
                if b and k > 0:
                    # an effect behind a short-circuit: evaluate the rest only when the left part decides so
                    left = (" ∧ " if isinstance(e.op, ast.And) else " ∨ ").join(parts)
                    rest = ast.BoolOp(op=e.op, values=e.values[k:]) if len(e.values) - k > 1 else v
                    br, cr = self.cond(rest)
                    inner = self.wrap_r(br, ".ok (decide %s)" % cr)
                    n = self.fresh()
                    short = ".ok false" if isinstance(e.op, ast.And) else ".ok true"
                    go = "(%s)" % left
                    term = "if %s then %s else %s" % (go, inner if isinstance(e.op, ast.And) else short, short if isinstance(e.op, ast.And) else inner)
                    return binds + [(n, term)], "(%s = true)" % n
                binds += b; parts.append(c)
            return binds, "(" + (" ∧ " if isinstance(e.op, ast.And) else " ∨ ").join(parts) + ")"
        if isinstance(e, ast.Compare) and len(e.ops) == 1:
            op, right = e.ops[0], e.comparators[0]
            if isinstance(op, (ast.In, ast.NotIn)) and isinstance(right, ast.Tuple):
                bl, l, tl = self.expr(e.left)
                parts = []
                for el in right.elts:
                    br, r, tr = self.expr(el)
                    if br: raise Untranslatable("effect inside a membership tuple")
                    parts.append("%s = %s" % (l, self.coerce(r, tr, tl)))
                c = "(" + " ∨ ".join(parts) + ")"
                return bl, c if isinstance(op, ast.In) else "(¬ %s)" % c
            if isinstance(op, (ast.Is, ast.IsNot)) and isinstance(right, ast.Constant) and right.value is None:
                bl, l, tl = self.expr(e.left)
                if not tl.startswith("Opt"): raise Untranslatable("`is None` on %s" % tl)
                return bl, "(%s %s none)" % (l, "=" if isinstance(op, ast.Is) else "≠")
            sym = {ast.Lt: "<", ast.LtE: "≤", ast.Gt: ">", ast.GtE: "≥", ast.Eq: "=", ast.NotEq: "≠"}.get(type(op))
            if sym:
                bl, l, tl = self.expr(e.left); br, r, tr = self.expr(right)
                if tl == tr == "Int": return bl + br, "(%s %s %s)" % (l, sym, r)
                if tl == tr == "Zone" and sym == "=" and getattr(self, "eq_fn", None):       # self == other: the class's translated __eq__
                    n = self.fresh()
                    return bl + br + [(n, "%s %s %s" % (self.eq_fn, l, r))], "(%s = true)" % n
                if sym in ("=", "≠"):
                    if tl == "CStr" and tr in ("StrLit", "CStr"): return bl + br, "(%s %s %s)" % (l, sym, self.coerce(r, tr, "CStr"))
                    if tl == "CStr" and tr == "OptCStr": return bl + br, "((some %s) %s %s)" % (l, sym, r)      # str == None is False
                    if tl == "OptCStr" and tr in ("StrLit", "CStr"): return bl + br, "(%s %s (some %s))" % (l, sym, self.coerce(r, tr, "CStr"))
                raise Untranslatable("comparison of %s and %s" % (tl, tr))
        b, t, ty = self.expr(e)
        if ty == "Bool": return b, "(%s = true)" % t
        if ty in ("CStr", "CStrList", "CompList"): return b, "(%s ≠ [])" % t
        if ty == "OptCStr": return b, "(ICal.truthy %s = true)" % t
        raise Untranslatable("truth value of %s" % ty)

    # ---------------------------------------------------------------- statements
    def wrap_r(self, binds, text):
        for n, rhs in reversed(binds):
            text = "Except.bind (%s) fun %s => %s" % (rhs, n, text)
        return "(%s)" % text if binds else text

    def wrap(self, binds, pad, text):
        for n, rhs in reversed(binds):
            text = "%sExcept.bind (%s) fun %s =>\n%s" % (pad, rhs, n, text)
        return text

    def leaves(self, stmts):
        """does every path through the block end in raise / continue / return?"""
        if not stmts: return False
        s = stmts[-1]
        if isinstance(s, (ast.Raise, ast.Continue, ast.Return)): return True
        if isinstance(s, ast.If): return bool(s.orelse) and self.leaves(s.body) and self.leaves(s.orelse)
        return False

    def assigned(self, stmts):
        out = []
        def add(n):
            if n not in out: out.append(n)
        for s in stmts:
            if isinstance(s, ast.Assign):
                for t in s.targets:
                    for n in ([t] if not isinstance(t, ast.Tuple) else t.elts):
                        if isinstance(n, ast.Name): add(n.id)
                        elif isinstance(n, ast.Subscript) and self.self_attr(n.value, "_vtz"): add("self__vtz")
                        elif isinstance(n, ast.Subscript) and isinstance(n.value, ast.Name): add(n.value.id)
                        else: raise Untranslatable("assignment target")
            elif isinstance(s, ast.AugAssign):
                t = s.target
                add(t.id if isinstance(t, ast.Name) else t.value.id)
            elif isinstance(s, ast.Delete):
                for t in s.targets:
                    if isinstance(t, ast.Subscript) and isinstance(t.value, ast.Name): add(t.value.id)
                    else: raise Untranslatable("del target")
            elif isinstance(s, ast.If):
                for n in self.assigned(s.body) + self.assigned(s.orelse): add(n)
            elif isinstance(s, (ast.For, ast.While)):
                for n in self.assigned(s.body): add(n)
            elif isinstance(s, ast.Expr) and isinstance(s.value, ast.Call) and isinstance(s.value.func, ast.Attribute) \
                    and s.value.func.attr == "append" and isinstance(s.value.func.value, ast.Name):
                add(s.value.func.value.id)
        return out

    def carried(self, names):
        """join variables for a set of assigned Python names: `st` for the record, the name itself for a let"""
        out = []
        for n in names:
            v = "st" if (self.mode == "line" and n in STATE) else n
            if v not in out: out.append(v)
        return out

    def tup(self, vs):
        return vs[0] if len(vs) == 1 else "(" + ", ".join(vs) + ")"

    def assign(self, name, term, ty, pad, rest):
        if self.mode == "line" and name in STATE:
            return "%slet st := { st with %s := %s }\n%s" % (pad, FIELD[name], self.coerce(term, ty, STATE[name]), rest)
        want = self.types.get(name)
        if want is None: raise Untranslatable("undeclared local %s" % name)
        return "%slet %s : %s := %s\n%s" % (pad, name, LEAN_TY[want], self.coerce(term, ty, want), rest)

    def block(self, stmts, k, ind):
        """k: text producing the result when the block falls through (a function of nothing: it reads the current names)"""
        pad = "  " * ind
        if not stmts:
            return "%s%s" % (pad, k)
        s, rest = stmts[0], stmts[1:]
        R = lambda: self.block(rest, k, ind)
        if isinstance(s, ast.Pass) or (isinstance(s, ast.Expr) and isinstance(s.value, ast.Constant)):
            return R()
        if isinstance(s, ast.Continue):
            if self.mode != "line" or getattr(self, "in_for", False): raise Untranslatable("continue")
            return "%s.ok st" % pad
        if isinstance(s, ast.Return) and getattr(self, "ret", None):
            if s.value is None: raise Untranslatable("bare return")
            b, t, ty = self.expr(s.value)
            return self.wrap(b, pad, "%s.ok %s" % (pad, self.coerce(t, ty, self.ret)))
        if isinstance(s, ast.Expr) and isinstance(s.value, ast.Call) and isinstance(s.value.func, ast.Attribute) and s.value.func.attr == "__init__" \
                and isinstance(s.value.func.value, ast.Call) and isinstance(s.value.func.value.func, ast.Name) and s.value.func.value.func.id == "super" \
                and not s.value.args and getattr(self, "ctor", None):
            return R()           # the base class (_tzinfo / tzinfo) constructor sets no attribute
        if isinstance(s, ast.Assign) and len(s.targets) == 1 and self.self_attr(s.targets[0]) and getattr(self, "ctor", None):
            a = s.targets[0].attr
            if a not in self.ctor: raise Untranslatable("constructor sets self.%s" % a)
            b, v, ty = self.expr(s.value)
            want = self.ctor[a]
            self.types["self_" + a] = want
            return self.wrap(b, pad, "%slet self_%s : %s := %s\n%s" % (pad, a, LEAN_TY[want], self.coerce(v, ty, want), R()))
        if isinstance(s, ast.Raise) and isinstance(s.exc, ast.Call) and isinstance(s.exc.func, ast.Name) and s.exc.func.id == "NotImplementedError" \
                and all(isinstance(a, ast.Constant) for a in s.exc.args):
            return "%s.error .NotImplemented" % pad
        if isinstance(s, ast.Raise):
            if not (isinstance(s.exc, ast.Call) and isinstance(s.exc.func, ast.Name) and s.exc.func.id == "ValueError" and s.cause is None):
                raise Untranslatable("raise shape")
            binds = []
            for a in s.exc.args:
                b, _, ty = self.expr(a)
                if ty not in ("CStr", "StrLit"): raise Untranslatable("exception argument of type %s" % ty)
                binds += b
            return self.wrap(binds, pad, "%s.error .ValueError" % pad)
        if isinstance(s, ast.If):
            b, c = self.cond(s.test)
            if self.leaves(s.body) or self.leaves(s.orelse) or not rest:
                a = self.block(list(s.body) + ([] if self.leaves(s.body) else rest), k, ind + 1)
                o = self.block(list(s.orelse) + ([] if self.leaves(s.orelse) else rest), k, ind + 1)
                return self.wrap(b, pad, "%sif %s then\n%s\n%selse\n%s" % (pad, c, a, pad, o))
            vs = self.carried(self.assigned(s.body) + self.assigned(s.orelse))
            if not vs: raise Untranslatable("if without effect")
            a = self.block(list(s.body), ".ok %s" % self.tup(vs), ind + 2)
            o = self.block(list(s.orelse), ".ok %s" % self.tup(vs), ind + 2)
            return self.wrap(b, pad, "%sExcept.bind (if %s then\n%s\n%s  else\n%s) fun %s =>\n%s" % (pad, c, a, pad, o, self.tup(vs), R()))
        if isinstance(s, ast.For):
            if s.orelse or not isinstance(s.target, ast.Name): raise Untranslatable("for shape")
            later = {n.id for st_ in rest for n in ast.walk(st_) if isinstance(n, ast.Name)}
            for a in self.assigned(s.body):       # only names that die with the iteration
                if a in STATE or a in later or a == s.target.id: raise Untranslatable("for loop that assigns %s" % a)
            bi, it, ti = self.expr(s.iter)
            if ti not in ELEM: raise Untranslatable("for over %s" % ti)
            saved = self.types.get(s.target.id)
            self.types[s.target.id] = ELEM[ti]
            self.in_for = True
            try:
                body = self.block(list(s.body), ".ok ()", ind + 2)
            finally:
                self.in_for = False
            if saved is not None: self.types[s.target.id] = saved
            return self.wrap(bi, pad, "%sExcept.bind (RfcPy.forM_ %s fun %s =>\n%s) fun _ =>\n%s" % (pad, it, s.target.id, body, R()))
        if isinstance(s, ast.Delete) and len(s.targets) == 1 and isinstance(s.targets[0], ast.Subscript) and isinstance(s.targets[0].value, ast.Name):
            l = s.targets[0].value.id
            if self.types.get(l) != "CStrList" or (self.mode == "line" and l in STATE): raise Untranslatable("del on %s" % l)
            bi, i, ti = self.expr(s.targets[0].slice)
            return self.wrap(bi, pad, "%sExcept.bind (RfcPy.ldel %s %s) fun %s =>\n%s" % (pad, l, i, l, R()))
        if isinstance(s, ast.AugAssign):
            t = s.target
            if isinstance(t, ast.Name) and self.types.get(t.id) == "Int" and isinstance(s.op, (ast.Add, ast.Sub)):
                b, v, ty = self.expr(s.value)
                if ty != "Int": raise Untranslatable("augmented assignment of %s" % ty)
                return self.wrap(b, pad, "%slet %s := (%s %s %s)\n%s" % (pad, t.id, t.id, "+" if isinstance(s.op, ast.Add) else "-", v, R()))
            if isinstance(t, ast.Subscript) and isinstance(t.value, ast.Name) and self.types.get(t.value.id) == "CStrList" \
                    and isinstance(s.op, ast.Add) and not (self.mode == "line" and t.value.id in STATE):
                bi, i, ti = self.expr(t.slice); bv, v, tv = self.expr(s.value)
                l = t.value.id
                return self.wrap(bi + bv, pad, "%sExcept.bind (RfcPy.laddAt %s %s %s) fun %s =>\n%s" % (pad, l, i, self.coerce(v, tv, "CStr"), l, R()))
            raise Untranslatable("augmented assignment shape")
        if isinstance(s, ast.Expr) and isinstance(s.value, ast.Call) and isinstance(s.value.func, ast.Attribute) \
                and s.value.func.attr == "append" and isinstance(s.value.func.value, ast.Name) and len(s.value.args) == 1:
            l = s.value.func.value.id
            lt, lty = self.ref(l)
            if lty not in ELEM: raise Untranslatable("append to %s" % lty)
            b, v, ty = self.expr(s.value.args[0])
            return self.wrap(b, pad, self.assign(l, "(%s ++ [%s])" % (lt, self.coerce(v, ty, ELEM[lty])), lty, pad, R()))
        if isinstance(s, ast.Assign) and len(s.targets) == 1:
            tg = s.targets[0]
            if isinstance(tg, ast.Tuple) and len(tg.elts) == 2 and all(isinstance(x, ast.Name) for x in tg.elts):
                v = s.value
                if isinstance(v, ast.Call) and isinstance(v.func, ast.Attribute) and v.func.attr == "split" and len(v.args) == 2 \
                        and isinstance(v.args[0], ast.Constant) and isinstance(v.args[0].value, str) and len(v.args[0].value) == 1 \
                        and isinstance(v.args[1], ast.Constant) and v.args[1].value == 1 and not v.keywords:
                    b, t, ty = self.expr(v.func.value)
                    if ty != "CStr": raise Untranslatable("split of %s" % ty)
                    a, c = tg.elts[0].id, tg.elts[1].id
                    if self.types.get(a) != "CStr" or self.types.get(c) != "CStr": raise Untranslatable("unpack target types")
                    return self.wrap(b, pad, "%sExcept.bind (RfcPy.split1 %s %s) fun (%s, %s) =>\n%s" % (pad, t, char_lit(v.args[0].value), a, c, R()))
                raise Untranslatable("tuple assignment shape")
            if isinstance(tg, ast.Subscript) and self.self_attr(tg.value, "_vtz"):
                bk, key, tk = self.expr(tg.slice); bv, v, tv = self.expr(s.value)
                if tv != "Vtz" or not (isinstance(tg.slice, ast.Name) and tg.slice.id == "tzid" and isinstance(s.value, ast.Call)
                                       and isinstance(s.value.args[0], ast.Name) and s.value.args[0].id == "tzid"):
                    raise Untranslatable("self._vtz[...] assignment shape")
                cur = self.ref("self__vtz")[0]
                return self.wrap(bk + bv, pad, self.assign("self__vtz", "(ICal.putVtz %s %s)" % (cur, v), "VtzList", pad, R()))
            if isinstance(tg, ast.Name):
                b, v, ty = self.expr(s.value)
                if b and b[-1][0] == v and not (self.mode == "line" and tg.id in STATE) and self.types.get(tg.id) == ty:
                    return self.wrap(b[:-1], pad, "%sExcept.bind (%s) fun %s =>\n%s" % (pad, b[-1][1], tg.id, R()))
                return self.wrap(b, pad, self.assign(tg.id, v, ty, pad, R()))
        raise Untranslatable("statement %s" % type(s).__name__)


def translate_parse_rfc(tree):
    fn = find_function(tree, "tzical._parse_rfc")
    if [a.arg for a in fn.args.args] != ["self", "s"]:
        raise Untranslatable("signature of tzical._parse_rfc")
    # the constructor hands an EMPTY dict to the parser
    init = find_function(tree, "tzical.__init__")
    seen_vtz = False
    for node in ast.walk(init):
        if isinstance(node, ast.Assign) and len(node.targets) == 1 and isinstance(node.targets[0], ast.Attribute) \
                and node.targets[0].attr == "_vtz" and isinstance(node.value, ast.Dict) and not node.value.keys:
            seen_vtz = True
    if not seen_vtz: raise Untranslatable("tzical.__init__ does not set self._vtz = {}")
    body = list(fn.body)
    whiles = [k for k, s in enumerate(body) if isinstance(s, ast.While)]
    fors = [k for k, s in enumerate(body) if isinstance(s, ast.For)]
    if len(whiles) != 1 or len(fors) != 1 or fors[0] != len(body) - 1 or whiles[0] > fors[0]:
        raise Untranslatable("_parse_rfc: expected one while loop followed (later) by a final for loop")
    w, f = body[whiles[0]], body[fors[0]]
    if w.orelse or f.orelse or not (isinstance(f.target, ast.Name) and f.target.id == "line" and isinstance(f.iter, ast.Name) and f.iter.id == "lines"):
        raise Untranslatable("_parse_rfc loop shape")
    out = []
    # 1. while body on (lines, i)
    tr = RfcTr("plain")
    wv = tr.carried(tr.assigned(w.body))
    live = [v for v in wv if v in ("lines", "i")]
    if sorted(live) != ["i", "lines"]: raise Untranslatable("while loop carries %s" % wv)
    wbody = tr.block(list(w.body), ".ok (lines, i)", 1)
    out.append("/-- translated from `tzical._parse_rfc`: the body of the unfolding `while` loop on the carried pair (lines, i) -/\n"
               "def tzical_parseRfc_unfold (p : List (List Char) × Int) : Py.R (List (List Char) × Int) :=\n  let lines := p.1\n  let i := p.2\n%s\n" % wbody)
    bc, cc = tr.cond(w.test)
    if bc: raise Untranslatable("while condition with effects")
    out.append("/-- the condition of that loop -/\ndef tzical_parseRfc_unfoldCond (p : List (List Char) × Int) : Bool :=\n  let lines := p.1\n  let i := p.2\n  decide %s\n" % cc)
    # 2. for body on the state record
    tr2 = RfcTr("line")
    lbody = tr2.block(list(f.body), ".ok st", 1)
    out.append("/-- translated from `tzical._parse_rfc`: the body of `for line in lines:` on the record of the locals that live across iterations -/\n"
               "def tzical_parseRfc_line (rrulestr : ICal.RRuleLib) (st : ICal.PState) (line : List Char) : Py.R ICal.PState :=\n%s\n" % lbody)
    # 3. the function
    tr3 = RfcTr("line")
    pre, mid = body[:whiles[0]], body[whiles[0] + 1:fors[0]]
    loop = "Except.bind (RfcPy.whileFuel ((lines).length) tzical_parseRfc_unfoldCond tzical_parseRfc_unfold (lines, i)) fun (lines, i) =>"
    tail = tr3.block(mid, "List.foldlM (tzical_parseRfc_line rrulestr) st lines", 3)
    # translate `pre` with a continuation that is the loop followed by `mid` and the fold
    head = tr3.block(pre, "%s\n      let st : ICal.PState := {}\n%s" % (loop, tail), 1)
    out.append("/-- translated from `tzical._parse_rfc` (the value is the record of its locals at the end; `.vtz` is `self._vtz`) -/\n"
               "def tzical_parseRfc (rrulestr : ICal.RRuleLib) (s : List Char) : Py.R ICal.PState :=\n%s\n" % head)
    return "\n".join(out), hashlib.sha256(ast.dump(fn).encode()).hexdigest()[:16]


def _fn_text(tree, qual, lean_name, params, ret, doc, self_params=(), ctor=None, ctor_struct=None, eq_fn=None, self_types=None):
    fn = find_function(tree, qual)
    formals = [a.arg for a in fn.args.args if a.arg != "self"]
    if formals != [p for p, _ in params]: raise Untranslatable("signature of %s is %s" % (qual, formals))
    for d in fn.args.defaults:
        if not (isinstance(d, ast.Constant) and d.value is None) and not (isinstance(d, ast.List) and not d.elts):
            raise Untranslatable("default of %s" % qual)
    tr = RfcTr("plain")
    tr.types = dict(params)
    for n, t in (self_types or {}).items(): tr.types[n] = t
    tr.ret = ret
    tr.ctor = ctor
    tr.eq_fn = eq_fn
    if ctor:
        k = ".ok { %s }" % ", ".join("%s := self_%s" % (lf, a) for a, lf in ctor_struct)
        body = tr.block(list(fn.body), k, 1)
        for a, _ in ctor_struct:
            if "self_" + a not in tr.types: raise Untranslatable("%s does not set self.%s" % (qual, a))
    else:
        body = tr.block(list(fn.body), ".ok ()", 1)
    args = " ".join(["(%s : %s)" % (n, LEAN_TY[t]) for n, t in self_params] + ["(%s : %s)" % (n, LEAN_TY[t]) for n, t in params])
    text = "/-- translated from `%s`%s -/\ndef %s %s : Py.R (%s) :=\n%s\n" % (qual, doc, lean_name, args, ret if ret in ("RfcPy.CompObj", "RfcPy.VtzObj") else LEAN_TY[ret], body)
    return text, hashlib.sha256(ast.dump(fn).encode()).hexdigest()[:16]


def translate_objects(tree, common):
    out, fps = [], {}
    def add(t, qual, *a, **kw):
        text, fp = _fn_text(t, qual, *a, **kw)
        out.append(text); fps[qual] = fp
    add(tree, "tzical.get", "tzical_get", [("tzid", "OptCStr")], "OptVtz", " (`self._vtz` as the insertion-ordered list of zones)",
        self_params=[("self__vtz", "VtzList")], self_types={"self__vtz": "VtzList"})
    add(tree, "tzical.keys", "tzical_keys", [], "CStrList", "", self_params=[("self__vtz", "VtzList")], self_types={"self__vtz": "VtzList"})
    add(tree, "_tzicalvtzcomp.__init__", "tzicalvtzcomp_init",
        [("tzoffsetfrom", "Int"), ("tzoffsetto", "Int"), ("isdst", "Bool"), ("tzname", "OptCStr"), ("rrule", "OptRRObj")], "RfcPy.CompObj",
        ": the component object as the record of the attributes it sets (offsets as timedeltas in microseconds)",
        ctor={"tzoffsetfrom": "TD", "tzoffsetto": "TD", "tzoffsetdiff": "TD", "isdst": "Bool", "tzname": "OptCStr", "rrule": "OptRRObj"},
        ctor_struct=[(a, a) for a in ("tzoffsetfrom", "tzoffsetto", "tzoffsetdiff", "isdst", "tzname", "rrule")])
    add(tree, "_tzicalvtz.__init__", "tzicalvtz_init", [("tzid", "OptCStr"), ("comps", "CompList")], "RfcPy.VtzObj",
        ": the zone object as the record of the attributes it sets; both cache lists start empty",
        ctor={"_tzid": "OptCStr", "_comps": "CompList", "_cachedate": "KeyList", "_cachecomp": "OptZCompList", "_cache_lock": "Unit"},
        ctor_struct=[("_tzid", "tzid"), ("_comps", "comps"), ("_cachedate", "cachedate"), ("_cachecomp", "cachecomp")])
    add(common, "tzrangebase.__ne__", "tzrange_ne", [("other", "Zone")], "Bool", " over the translated `tzrange.__eq__`",
        self_params=[("self", "Zone")], eq_fn="tzrange_eq", self_types={"self": "Zone"})
    add(common, "tzrangebase.__init__", "tzrangebase_init", [], "Unit", " (abstract base class)")
    add(common, "_tzinfo._fold", "tzinfo_fold", [("dt", "Dt")], "Int", "")
    return "\n".join(out), fps


def translate_tzical_init(tree):
    fn = find_function(tree, "tzical.__init__")
    if [a.arg for a in fn.args.args] != ["self", "fileobj"]: raise Untranslatable("signature of tzical.__init__")
    body = [st for st in fn.body if not isinstance(st, (ast.Global, ast.Import, ast.ImportFrom)) and not (isinstance(st, ast.Expr) and isinstance(st.value, ast.Constant))]
    if len(body) != 3: raise Untranslatable("tzical.__init__: %d statements after the imports" % len(body))
    br, vt, wi = body
    def sets_s_and_rebinds(stmts, how):
        if len(stmts) != 2: return False
        a, b = stmts
        if not (isinstance(a, ast.Assign) and len(a.targets) == 1 and isinstance(a.targets[0], ast.Attribute) and a.targets[0].attr == "_s"): return False
        if not (isinstance(b, ast.Assign) and len(b.targets) == 1 and isinstance(b.targets[0], ast.Name) and b.targets[0].id == "fileobj"
                and isinstance(b.value, ast.Call) and isinstance(b.value.func, ast.Name) and b.value.func.id == how
                and b.value.args and isinstance(b.value.args[0], ast.Name) and b.value.args[0].id == "fileobj"): return False
        if how == "open" and not (len(b.value.args) == 2 and isinstance(b.value.args[1], ast.Constant) and b.value.args[1].value == "r" and not b.value.keywords): return False
        if how == "_nullcontext" and (len(b.value.args) != 1 or b.value.keywords): return False
        return True
    ok = isinstance(br, ast.If) and isinstance(br.test, ast.Call) and isinstance(br.test.func, ast.Name) and br.test.func.id == "isinstance" \
        and len(br.test.args) == 2 and isinstance(br.test.args[0], ast.Name) and br.test.args[0].id == "fileobj" \
        and isinstance(br.test.args[1], ast.Name) and br.test.args[1].id == "string_types" \
        and sets_s_and_rebinds(br.body, "open") and sets_s_and_rebinds(br.orelse, "_nullcontext")
    if not ok: raise Untranslatable("tzical.__init__: the path / stream branch")
    if not (isinstance(vt, ast.Assign) and len(vt.targets) == 1 and isinstance(vt.targets[0], ast.Attribute) and vt.targets[0].attr == "_vtz"
            and isinstance(vt.value, ast.Dict) and not vt.value.keys):
        raise Untranslatable("tzical.__init__: self._vtz = {}")
    ok = isinstance(wi, ast.With) and len(wi.items) == 1 and isinstance(wi.items[0].context_expr, ast.Name) and wi.items[0].context_expr.id == "fileobj" \
        and isinstance(wi.items[0].optional_vars, ast.Name) and len(wi.body) == 1 and isinstance(wi.body[0], ast.Expr)
    if ok:
        c = wi.body[0].value
        v = wi.items[0].optional_vars.id
        ok = isinstance(c, ast.Call) and isinstance(c.func, ast.Attribute) and c.func.attr == "_parse_rfc" and isinstance(c.func.value, ast.Name) \
            and c.func.value.id == "self" and len(c.args) == 1 and not c.keywords and isinstance(c.args[0], ast.Call) and not c.args[0].args \
            and isinstance(c.args[0].func, ast.Attribute) and c.args[0].func.attr == "read" and isinstance(c.args[0].func.value, ast.Name) and c.args[0].func.value.id == v
    if not ok: raise Untranslatable("tzical.__init__: with fileobj as fobj: self._parse_rfc(fobj.read())")
    text = ("/-- translated from `tzical.__init__`: open / wrap the argument, start from an empty `_vtz`, parse what `read()` returns -/\n"
            "def tzical_init (rrulestr : ICal.RRuleLib) (fileobj : RfcPy.FileArg) : Py.R ICal.PState :=\n"
            "  -- if isinstance(fileobj, string_types): fileobj = open(fileobj, 'r')  else: fileobj = _nullcontext(fileobj)\n"
            "  -- self._vtz = {}   (the translated _parse_rfc starts from the empty record)\n"
            "  Except.bind (RfcPy.FileArg.openRead fileobj) fun t1 =>\n"
            "  tzical_parseRfc rrulestr t1\n")
    return text, {"tzical.__init__": hashlib.sha256(ast.dump(fn).encode()).hexdigest()[:16]}


def translate_dst_base_offset(tree):
    init = find_function(tree, "tzrange.__init__")
    found = False
    for st in init.body:
        if isinstance(st, ast.Assign) and len(st.targets) == 1 and isinstance(st.targets[0], ast.Attribute) and st.targets[0].attr == "_dst_base_offset_":
            v = st.value
            found = isinstance(v, ast.BinOp) and isinstance(v.op, ast.Sub) and all(isinstance(x, ast.Attribute) and isinstance(x.value, ast.Name) and x.value.id == "self" for x in (v.left, v.right)) \
                and v.left.attr == "_dst_offset" and v.right.attr == "_std_offset"
    if not found: raise Untranslatable("tzrange.__init__: self._dst_base_offset_ = self._dst_offset - self._std_offset")
    fn = find_function(tree, "tzrange._dst_base_offset")
    body = [st for st in fn.body if not (isinstance(st, ast.Expr) and isinstance(st.value, ast.Constant))]
    ok = [a.arg for a in fn.args.args] == ["self"] and len(body) == 1 and isinstance(body[0], ast.Return) and isinstance(body[0].value, ast.Attribute) \
        and isinstance(body[0].value.value, ast.Name) and body[0].value.value.id == "self" and body[0].value.attr == "_dst_base_offset_" \
        and any(isinstance(d, ast.Name) and d.id == "property" for d in fn.decorator_list)
    if not ok: raise Untranslatable("tzrange._dst_base_offset shape")
    text = ("/-- translated from `tzrange.__init__`, the statement `self._dst_base_offset_ = self._dst_offset - self._std_offset` (timedeltas in microseconds) -/\n"
            "def tzrange_initDstBaseOffset (self__dst_offset : Int) (self__std_offset : Int) : Py.R Int :=\n  RfcPy.tdSub self__dst_offset self__std_offset\n\n"
            "/-- translated from the property `tzrange._dst_base_offset` -/\n"
            "def tzrange_dstBaseOffsetProp (self__dst_base_offset_ : Int) : Py.R Int :=\n  .ok self__dst_base_offset_\n")
    return text, {"tzrange._dst_base_offset": hashlib.sha256((ast.dump(fn) + ast.dump(init)).encode()).hexdigest()[:16]}


def translate_common_helpers(common):
    """`enfold` and `tzname_in_python2`: module-level / interpreter-dependent branches are decided the way this interpreter decides them"""
    import datetime as _dt, six
    out, fps = [], {}
    # enfold: the live definition
    live = None
    for node in common.body:
        if isinstance(node, ast.If) and isinstance(node.test, ast.Call) and isinstance(node.test.func, ast.Name) and node.test.func.id == "hasattr" \
                and len(node.test.args) == 2 and isinstance(node.test.args[0], ast.Name) and node.test.args[0].id == "datetime" \
                and isinstance(node.test.args[1], ast.Constant) and node.test.args[1].value == "fold":
            branch = node.body if hasattr(_dt.datetime, "fold") else node.orelse
            for st in branch:
                if isinstance(st, ast.FunctionDef) and st.name == "enfold": live = st
    if live is None: raise Untranslatable("enfold: no live definition under `if hasattr(datetime, 'fold')`")
    if [a.arg for a in live.args.args] != ["dt", "fold"] or len(live.args.defaults) != 1 or not (isinstance(live.args.defaults[0], ast.Constant) and live.args.defaults[0].value == 1):
        raise Untranslatable("signature of enfold")
    body = [st for st in live.body if not (isinstance(st, ast.Expr) and isinstance(st.value, ast.Constant))]
    ok = len(body) == 1 and isinstance(body[0], ast.Return) and isinstance(body[0].value, ast.Call) and isinstance(body[0].value.func, ast.Attribute) \
        and body[0].value.func.attr == "replace" and isinstance(body[0].value.func.value, ast.Name) and body[0].value.func.value.id == "dt" \
        and not body[0].value.args and len(body[0].value.keywords) == 1 and body[0].value.keywords[0].arg == "fold" \
        and isinstance(body[0].value.keywords[0].value, ast.Name) and body[0].value.keywords[0].value.id == "fold"
    if not ok: raise Untranslatable("enfold body")
    out.append("/-- translated from `enfold` (tz/_common.py, the definition live on Python >= 3.6; default `fold=1`) -/\n"
               "def enfold (dt : DtPy.Dt) (fold : Int := 1) : Py.R DtPy.Dt :=\n  RfcPy.replaceFold dt fold\n")
    fps["enfold"] = hashlib.sha256(ast.dump(live).encode()).hexdigest()[:16]
    # tzname_in_python2
    fn = find_function(common, "tzname_in_python2")
    body = [st for st in fn.body if not (isinstance(st, ast.Expr) and isinstance(st.value, ast.Constant))]
    if [a.arg for a in fn.args.args] != ["namefunc"] or len(body) != 1 or not isinstance(body[0], ast.If) \
            or not (isinstance(body[0].test, ast.Name) and body[0].test.id == "PY2"):
        raise Untranslatable("tzname_in_python2 shape")
    branch = body[0].body if six.PY2 else body[0].orelse
    if not (len(branch) == 1 and isinstance(branch[0], ast.Return) and isinstance(branch[0].value, ast.Name) and branch[0].value.id == "namefunc"):
        raise Untranslatable("tzname_in_python2: the Python 3 branch does not return its argument")
    out.append("/-- translated from `tzname_in_python2` with `six.PY2` false: the decorator returns the method it is given -/\n"
               "def tznameInPython2 {α : Type} (namefunc : α) : α :=\n  namefunc\n")
    fps["tzname_in_python2"] = hashlib.sha256(ast.dump(fn).encode()).hexdigest()[:16]
    return "\n".join(out), fps


def translate_factory_inits(tree):
    out, fps = [], {}
    for cls, lean in (("_TzSingleton", "tzSingleton_init"), ("_TzOffsetFactory", "tzOffsetFactory_init"), ("_TzStrFactory", "tzStrFactory_init")):
        qual = cls + ".__init__"
        fn = find_function(tree, qual)
        if [a.arg for a in fn.args.args] != ["cls"] or not fn.args.vararg or not fn.args.kwarg: raise Untranslatable("signature of %s" % qual)
        fields = {}
        for st in fn.body:
            if isinstance(st, ast.Expr) and isinstance(st.value, ast.Constant): continue
            if isinstance(st, ast.Expr) and isinstance(st.value, ast.Call) and isinstance(st.value.func, ast.Attribute) and st.value.func.attr == "__init__" \
                    and isinstance(st.value.func.value, ast.Call) and isinstance(st.value.func.value.func, ast.Name) and st.value.func.value.func.id == "super":
                continue
            if not (isinstance(st, ast.Assign) and len(st.targets) == 1 and isinstance(st.targets[0], ast.Attribute)
                    and isinstance(st.targets[0].value, ast.Name) and st.targets[0].value.id == "cls"):
                raise Untranslatable("%s: statement %s" % (qual, type(st).__name__))
            a, v = st.targets[0].attr, st.value
            def is_call(v, mod, name):
                return isinstance(v, ast.Call) and not v.args and not v.keywords and (
                    (isinstance(v.func, ast.Attribute) and isinstance(v.func.value, ast.Name) and v.func.value.id == mod and v.func.attr == name)
                    or (mod is None and isinstance(v.func, ast.Name) and v.func.id == name))
            if a == "__instances" and is_call(v, "weakref", "WeakValueDictionary"): fields["weak"] = "fun _ => none"
            elif a == "__strong_cache" and is_call(v, None, "OrderedDict"): fields["strong"] = "[]"
            elif a == "__strong_cache_size" and isinstance(v, ast.Constant) and isinstance(v.value, int) and v.value is not True and v.value >= 0:
                fields["cap"] = str(v.value)
            elif a in ("_cache_lock", "__cache_lock") and is_call(v, "_thread", "allocate_lock"): fields["lock"] = "none"
            elif a == "__instance" and isinstance(v, ast.Constant) and v.value is None: fields["single"] = "none"
            else: raise Untranslatable("%s sets cls.%s" % (qual, a))
        want = {"single"} if cls == "_TzSingleton" else {"weak", "strong", "cap", "lock"}
        if set(fields) != want: raise Untranslatable("%s sets %s" % (qual, sorted(fields)))
        # every attribute the constructor does not set is absent; the record's other fields are ghost state of the machine
        body = ", ".join("%s := %s" % (k, fields[k]) for k in ("weak", "strong", "cap", "lock", "single") if k in fields)
        out.append("/-- translated from `%s`: the shared state of the factory right after the class is created -/\ndef %s : Fact.Glob :=\n  { %s }\n" % (qual, lean, body))
        fps[qual] = hashlib.sha256(ast.dump(fn).encode()).hexdigest()[:16]
    return "\n".join(out), fps


def translate_files(src_root, groups):
    tree = ast.parse(open(os.path.join(src_root, "tz", "tz.py")).read())
    common = ast.parse(open(os.path.join(src_root, "tz", "_common.py")).read())
    text, fp = translate_parse_rfc(tree)
    text2, fps = translate_objects(tree, common)
    fps["tzical._parse_rfc"] = fp
    text3, fps3 = translate_factory_inits(ast.parse(open(os.path.join(src_root, "tz", "_factories.py")).read()))
    fps.update(fps3)
    text4, fps4 = translate_common_helpers(common)
    fps.update(fps4)
    text5, fps5 = translate_tzical_init(tree)
    fps.update(fps5)
    text6, fps6 = translate_dst_base_offset(tree)
    fps.update(fps6)
    return text + "\n" + text2 + "\n" + text3 + "\n" + text4 + "\n" + text5 + "\n" + text6, fps


RFC_GROUPS = [("tz/tz.py", ["tzical._parse_rfc"])]

if __name__ == "__main__":
    import sys
    root = sys.argv[1] if len(sys.argv) > 1 else "/repo/src/dateutil"
    print(translate_files(root, RFC_GROUPS)[0])
