"""
resolve18.py — run the REAL `tz.gettz.nocache` / `GettzFunc.__call__` under a CONTROLLED environment
(C18, name-resolution order) and describe that environment to the Lean model (`gettz.resolve`).

A temporary tree of real TZif files copied from /usr/share/zoneinfo, a non-TZif file, a directory, a
dangling symlink and a search directory whose name contains a space is built; `tz.tz.TZPATHS`,
`tz.tz.TZFILES`, `os.environ['TZ']` (+ tzset, so `time.tzname`) and
`dateutil.zoneinfo.get_zonefile_instance` are patched for the duration of a `with` block and
restored afterwards; the tree is deleted by `Tree.close()`.
"""
import os, sys, time, shutil, tempfile, itertools, warnings, struct

SYS = "/usr/share/zoneinfo"


def hexs(s):
    b = s.encode("utf-8", "surrogatepass")
    return b.hex() if b else "."


def hlist(xs):
    return ",".join(hexs(x) for x in xs) if xs else "~"


class Tree:
    """
    root/zi1/Europe/Paris   TZif (Paris)          root/zi2/Europe/Paris  TZif (London data: tells which entry won)
    root/zi1/Broken         not a TZif            root/zi2/Broken        TZif (Tokyo)  -> the unreadable one is skipped
    root/zi1/New_York       TZif                  root/zi2/Only2         TZif
    root/zi1/Dir/           a directory           root/zi2/GMT           TZif (a file named GMT beats the constant)
    root/zi1/Dangling       symlink to nowhere    root/zi2/EST5EDT       TZif (a file beats the TZ-string reading)
    root/zi1/Empty          zero-length file      root/zi2/localtime     TZif
    root/zi 3/Sp ace        TZif  (search dir with a space)      root/zi_3/Sp_ace  TZif (Sydney)
    root/etc/localtime      TZif                  root/etc/badlocal      not a TZif
    """
    def __init__(self):
        self.root = tempfile.mkdtemp(prefix="c18resolve_")
        r = self.root
        def cp(src, *dst):
            d = os.path.join(r, *dst)
            os.makedirs(os.path.dirname(d), exist_ok=True)
            shutil.copyfile(os.path.join(SYS, src), d)
            return d
        def text(content, *dst):
            d = os.path.join(r, *dst)
            os.makedirs(os.path.dirname(d), exist_ok=True)
            with open(d, "wb") as f:
                f.write(content)
            return d
        cp("Europe/Paris", "zi1", "Europe", "Paris")
        text(b"this is not a TZif file\n", "zi1", "Broken")
        cp("America/New_York", "zi1", "New_York")
        os.makedirs(os.path.join(r, "zi1", "Dir"))
        os.symlink(os.path.join(r, "nowhere"), os.path.join(r, "zi1", "Dangling"))
        text(b"", "zi1", "Empty")
        cp("Europe/London", "zi2", "Europe", "Paris")
        cp("Asia/Tokyo", "zi2", "Broken")
        cp("Asia/Kolkata", "zi2", "Only2")
        cp("Etc/GMT", "zi2", "GMT")
        cp("EST5EDT", "zi2", "EST5EDT")
        cp("Africa/Cairo", "zi2", "localtime")
        cp("Europe/Dublin", "zi 3", "Sp ace")
        cp("Australia/Sydney", "zi_3", "Sp_ace")
        cp("America/Sao_Paulo", "etc", "localtime")
        text(b"TZif but truncated", "etc", "badlocal")
        self.zi1, self.zi2 = os.path.join(r, "zi1"), os.path.join(r, "zi2")
        self.zi3, self.zi_3 = os.path.join(r, "zi 3"), os.path.join(r, "zi_3")
        self.etc_local, self.etc_bad = os.path.join(r, "etc", "localtime"), os.path.join(r, "etc", "badlocal")

    def close(self):
        shutil.rmtree(self.root, ignore_errors=True)


class Vendored:
    """stub for dateutil.zoneinfo.get_zonefile_instance(): `.get(name)`"""
    def __init__(self, zones):
        self.zones = zones

    def get(self, name, default=None):
        return self.zones.get(name, default)


class patched:
    """patch the environment `nocache` reads; restore on exit"""
    def __init__(self, tzvar, tzfiles, tzpaths, vendored):
        self.tzvar, self.tzfiles, self.tzpaths, self.vendored = tzvar, list(tzfiles), list(tzpaths), vendored

    def __enter__(self):
        from dateutil.tz import tz as T
        import dateutil.zoneinfo as Z
        self.T, self.Z = T, Z
        self.old = (os.environ.get("TZ"), T.TZFILES, T.TZPATHS, Z.get_zonefile_instance)
        if self.tzvar is None:
            os.environ.pop("TZ", None)
        else:
            os.environ["TZ"] = self.tzvar
        time.tzset()
        T.TZFILES, T.TZPATHS = self.tzfiles, self.tzpaths
        stub = self.vendored
        Z.get_zonefile_instance = lambda new_instance=False: stub
        self.tzname = list(time.tzname)
        return self

    def __exit__(self, *a):
        tzv, T_files, T_paths, gz = self.old
        if tzv is None:
            os.environ.pop("TZ", None)
        else:
            os.environ["TZ"] = tzv
        time.tzset()
        self.T.TZFILES, self.T.TZPATHS = T_files, T_paths
        self.Z.get_zonefile_instance = gz
        return False


def load_kind(path):
    from dateutil import tz
    try:
        tz.tzfile(path)
        return "t"
    except ValueError:
        return "v"
    except (IOError, OSError):
        return "o"
    except struct.error:
        return "s"
    except Exception as ex:          # noqa — any other exception kind is outside the model
        return "x" + type(ex).__name__


def tzstr_ok(s):
    from dateutil import tz
    try:
        tz.tzstr.instance(s)
        return "1"
    except ValueError:
        return "0"
    except Exception as ex:          # noqa
        return "x" + type(ex).__name__


def effective(tzvar, name):
    if not name:
        return tzvar if tzvar is not None else name
    return name


def probe_strings(tzvar, tzfiles, tzpaths, name):
    """every path string the resolution may hand to os.path.isfile / tzfile (built with Python's own
    os.path.join / str.replace: the model's `join` / `underscore` must produce the same strings)"""
    out = []
    for fp in tzfiles:
        if os.path.isabs(fp):
            out.append(fp)
        else:
            out += [os.path.join(p, fp) for p in tzpaths]
    n = effective(tzvar, name)
    if isinstance(n, str) and n not in ("", ":"):
        if n.startswith(":"):
            n = n[1:]
        if os.path.isabs(n):
            out.append(n)
        else:
            for p in tzpaths:
                j = os.path.join(p, n)
                out += [j, j.replace(" ", "_")]
    seen, res = set(), []
    for c in out:
        if c not in seen:
            seen.add(c); res.append(c)
    return res


def model_request(env, name):
    """the `gettz.resolve` request line for `name` under the (already entered) patched env"""
    files = []
    for c in probe_strings(env.tzvar, env.tzfiles, env.tzpaths, name):
        if os.path.isfile(c):
            files.append("%s:%s" % (hexs(c), load_kind(c)))
    n = effective(env.tzvar, name)
    s = n[1:] if isinstance(n, str) and n.startswith(":") else n
    sok = tzstr_ok(s) if isinstance(s, str) else "0"
    return "gettz.resolve %s %s %s %s %s %s %s %s" % (
        "-" if env.tzvar is None else hexs(env.tzvar), hlist(env.tzfiles), hlist(env.tzpaths),
        ",".join(files) if files else "~", hlist(env.tzname), hlist(sorted(env.vendored.zones)), sok,
        "-" if name is None else hexs(name))


def classify(obj, env):
    """canonical description of what nocache returned"""
    from dateutil import tz
    if obj is None:
        return "ok none"
    for k, v in env.vendored.zones.items():
        if v is obj:
            return "ok vendored " + hexs(k)
    if obj is tz.UTC:
        return "ok utc"
    if isinstance(obj, tz.tzlocal):
        return "ok local"
    if isinstance(obj, tz.tzstr):
        return "ok tzstr " + hexs(obj._s)
    if isinstance(obj, tz.tzfile):
        return "ok file " + hexs(obj._filename)
    return "other " + type(obj).__name__


def run_impl(env, name):
    from dateutil import tz
    try:
        return classify(tz.gettz.nocache(name), env)
    except ValueError:
        return "err ValueError"
    except (IOError, OSError):
        return "err OSError"
    except struct.error:
        return "err StructError"
    except Exception as ex:          # noqa
        return "err " + type(ex).__name__


def cache_class(env, name):
    """what a fresh GettzFunc does with the result: 0 cached, 1 returned uncached, 2 None, 'err …'"""
    from dateutil import tz
    f = type(tz.gettz)()
    try:
        rv = f(name) if name is not None else f()
    except Exception as ex:          # noqa
        return "err " + type(ex).__name__, f._cache_lock.locked()
    cached = name in f._GettzFunc__instances
    strong = name in f._GettzFunc__strong_cache
    if rv is None:
        c = 2
    else:
        c = 0 if cached else 1
    if cached != strong:
        c = "weak/strong disagree"
    return c, f._cache_lock.locked()


# --------------------------------------------------------------------------------------
# the documented order, written as a priority list (independent restatement for the oracle)
# --------------------------------------------------------------------------------------
class Unreadable(Exception):
    pass


def spec(env, name):
    """the documented result; `not-a-tzfile` where a file that had to be read is not a readable TZif file
    AND the code has no handler for what tzfile() raises there (the property wants None / the next
    candidate instead: D-C18-badfile)"""
    try:
        return _spec(env, name)
    except Unreadable:
        return "not-a-tzfile"


def _spec(env, name):
    def loads(p, handled=True):
        if not os.path.isfile(p):
            return False
        k = load_kind(p)
        if k == "s" or (k != "t" and not handled):
            raise Unreadable(p)
        return k == "t"
    n = name
    if n is None or n == "":
        n = env.tzvar if env.tzvar is not None else n
    if n is None or n in ("", ":"):
        # local time: the first system localtime file that can be read, else the C library's view
        for fp in env.tzfiles:
            cands = [fp] if os.path.isabs(fp) else [os.path.join(p, fp) for p in env.tzpaths]
            existing = [c for c in cands if os.path.isfile(c)][:1]
            if existing and loads(existing[0]):
                return "ok file " + hexs(existing[0])
        return "ok local"
    if n.startswith(":"):
        n = n[1:]
    if os.path.isabs(n):
        # the location of a tzfile(5) file
        if not os.path.isfile(n):
            return "ok none"
        return "ok file " + hexs(n) if loads(n, handled=False) else "ok none"
    # an IANA key: search path order, spaces may be spelt as underscores
    for p in env.tzpaths:
        j = os.path.join(p, n)
        c = j if os.path.isfile(j) else j.replace(" ", "_")
        if loads(c):
            return "ok file " + hexs(c)
    if n in env.vendored.zones:
        return "ok vendored " + hexs(n)
    if any(ch in "0123456789" for ch in n):
        return "ok tzstr " + hexs(n) if tzstr_ok(n) == "1" else "ok none"
    if n in ("GMT", "UTC"):
        return "ok utc"
    if n in env.tzname:
        return "ok local"
    return "ok none"


# --------------------------------------------------------------------------------------
# generators
# --------------------------------------------------------------------------------------
def environments(tree):
    from dateutil import tz
    mk = lambda n: tz.tzfile(os.path.join(SYS, n))          # one distinct object per vendored key
    vendoreds = [Vendored({}), Vendored({"Vendored/Zone": mk("Asia/Tehran"), "Only2": mk("Pacific/Chatham"),
                                         "V1": mk("Asia/Kathmandu"), "UTC": mk("Africa/Casablanca")})]
    tzvars = [None, "", ":", "XYZ3QRS", "Europe/Paris", ":Only2", tree.etc_local, "UTC", "Nonexistent/Zone", "New York"]
    pathss = [[tree.zi1, tree.zi2], [tree.zi2, tree.zi1], [tree.zi3, tree.zi1], [], [os.path.join(tree.root, "missing"), tree.zi1 + "/"],
              [tree.zi2], [tree.zi_3, tree.zi3]]
    filess = [[tree.etc_local, "localtime"], ["localtime"], [tree.etc_bad, "localtime"], [], ["missing"], [tree.etc_bad], ["Broken", tree.etc_local]]
    for tzvar, paths, files, v in itertools.product(tzvars, pathss, filess, vendoreds):
        yield tzvar, files, paths, v


def names(tree, rng=None):
    base = [None, "", ":", "Europe/Paris", ":Europe/Paris", "Broken", "New York", "New_York", "Only2", "GMT", "UTC", "Dir",
            "Dangling", "Empty", "Sp ace", "Sp_ace", "EST5EDT", "localtime", "Europe", "Europe/",
            tree.etc_local, tree.etc_bad, ":" + tree.etc_local, os.path.join(tree.zi1, "Dir"), os.path.join(tree.root, "nope"),
            os.path.join(tree.zi1, "Broken"), os.path.join(tree.zi1, "Empty"), os.path.join(tree.zi1, "Dangling"), "/",
            "UTC+3", "AAA3BBB", "EST5EDT,M3.2.0,M11.1.0", "1", "+5", "A1", "UTC+3x", "EST5EDT,M13.1.0,M11.1.0", "GMT0", "U7C",
            "XYZ", "QRS", "CET", "Vendored/Zone", "V1", "Nonexistent/Zone", "gmt", "utc", "Utc",
            "../zi2/Only2", "../etc/localtime", "./Only2", "a b", " ", "  ", "x" * 300, "x" * 5000, "x\0y", "٣", "Zürich",
            "::", ":::", ":/", ": ", "Europe/Paris ", " Europe/Paris", "New  York", "\t", "\n", "UTC\n", "a/b/c/d", "~", "$HOME", "*"]
    if rng is not None:
        alphabet = ["/", ":", " ", "_", ".", "..", "A", "b", "3", "+", "-", ",", "UTC", "GMT", "Only2", "Europe", "Paris", "\0"]
        for _ in range(25):
            base.append("".join(rng.choice(alphabet) for _ in range(rng.randrange(1, 6))))
    return base
