#!/usr/bin/env python3
"""
translate_rr.py — Python AST -> Lean 4 for "RrPy": the fragment of Python in which the integer helpers of
src/dateutil/rrule.py are written (`rrule.__construct_byset`, `rrule.__mod_distance`, `_iterinfo.rebuild`,
`_iterinfo.ydayset/mdayset/wdayset/ddayset`, `_iterinfo.htimeset/mtimeset/stimeset`).  Output:
Generated/RRuleKernels.lean (run-time support: Model/RrPy.lean; obligations: Properties/RRuleGen.lean).

Values and types
  Int Bool OptInt            ints, flags, `lastyear`                    Date   validated (y, m, d) of `datetime.date`
  IntList OptIntList         masks / tuples of ints / a slot that may be None
  IntSet                     `set()` of ints (members in insertion order)
  PairList OptPairList       `_bynweekday`                              ListList   `ranges` (list of 2-slices / 2-tuples)
  Slots                      `[None]*n` filled with ints                Time TimeList  `datetime.time` as (h, m, s)
  tuples of the above        return values
`self` of an `_iterinfo` method is the record RrPy.II; its slots are read into locals `self_<slot>` on entry and a
method that assigns slots returns the updated record (`rebuild`).  `self.rrule` / `rr` / `self` of an `rrule` method
is the normalised rule `RRule.Rule` (read only).

Expressions: int literals, names, module constants (`YEARLY` … from `(YEARLY, …) = list(range(7))`, integer
assignments), the dumped tables (`M365MASK` … ↦ `Gen.M365MASK`), `+ - *`, `// %` by a positive literal, unary minus,
`[v]*n`, `len`, `gcd`, `divmod` (literal divisor: total; otherwise ZeroDivisionError), `divmod(..)[k]`, `L[i]`
(IndexError / TypeError on None), `L[a:b]`, `L[a:]`, tuples, list displays, `set()`, `list(range(n))`,
`calendar.isleap`, `datetime.date(y, m, d)` (ValueError), `.toordinal()`, `.weekday()`, `easter.easter(year)`
(the translated kernel `Gen.easter`), `datetime.time(h, m, s, tzinfo=…)` (the named primitive `RRule.mkTime`),
comparisons (chained), `in` / `not in` on tuples / sets / slots, `and or not`, truthiness of ints / bools / lists / slots,
`isinstance(<list-typed>, integer_types)` (statically False: the branch is dropped).
Statements: assignment (names, chained, tuple unpacking of a pair / a 2-slice, slots, `L[i] = v`), `+= -=`,
`x.add(e)`, `x.append(e)`, `x.sort()`, `if/elif/else`, `for … in` over `range(..)`, a list, a slot, with
`break` / `continue` / (one level) `return`, `return`, `raise E(..)`, falling off the end (`None`).

Control flow (everything lives in `Except PyErr`, written with `do`):
  x = e                 ↦ let x := ⟦e⟧              x = raising e ↦ let x ← ⟦e⟧   (sub-expressions hoisted in evaluation order)
  if, one branch ends in return/raise/break/continue, or contains one
                        ↦ if c then ⟦A ; rest⟧ else ⟦B ; rest⟧
  other if              ↦ let (v…) ← (do if c then ⟦A⟧; pure (v…) else ⟦B⟧; pure (v…))     v = assigned in A or B and LIVE after
  for x in it: body     ↦ an auxiliary function by structural recursion on the list ⟦it⟧, carrying exactly the
                          variables assigned in the loop that are live at the loop head or after it (a backward
                          liveness analysis); `continue` = the recursive call, `break` = return the carried values
A name read while unbound in Python (UnboundLocalError) is given its type's default; none of the translated functions
does that.  Anything else raises Untranslatable(<construct>): a broken tie for C01.
"""
import ast, os, hashlib
from translate import Untranslatable, find_function

ERRS = {"ValueError", "IndexError", "OverflowError", "TypeError"}
LEAN_TY = {"Int": "Int", "Bool": "Bool", "OptInt": "Option Int", "IntList": "List Int", "OptIntList": "Option (List Int)",
           "IntSet": "List Int", "PairList": "List (Int × Int)", "OptPairList": "Option (List (Int × Int))",
           "ListList": "List (List Int)", "Slots": "List (Option Int)", "Time": "RRule.HMS", "TimeList": "List RRule.HMS",
           "Date": "(Int × Int × Int)", "Pair": "(Int × Int)", "OptPair": "Option (Int × Int)", "II": "RrPy.II",
           "Rule": "RRule.Rule", "Unit": "Unit", "DT": "DT", "OptDT": "Option DT", "PairSet": "List (Int × Int)",
           "OptTimeList": "Option (List RRule.HMS)"}
DEFAULT = {"Int": "0", "Bool": "false", "OptInt": "none", "IntList": "[]", "OptIntList": "none", "IntSet": "[]",
           "PairList": "[]", "OptPairList": "none", "ListList": "[]", "Slots": "[]", "TimeList": "[]", "Pair": "(0, 0)"}
ELEM = {"IntList": "Int", "IntSet": "Int", "PairList": "Pair", "PairSet": "Pair", "ListList": "IntList", "TimeList": "Time", "Slots": "OptInt"}
OPT_OF = {"OptIntList": "IntList", "OptPairList": "PairList", "OptInt": "Int", "OptPair": "Pair", "OptTimeList": "TimeList", "OptDT": "DT"}
DT_ATTRS = {"month": "m", "day": "d", "hour": "hh", "minute": "mm", "second": "ss", "year": "y"}

RULE_ATTRS = {"_interval": ("interval", "Int"), "_wkst": ("wkst", "Int"), "_freq": ("freq", "Int"),
              "_byweekno": ("byweekno", "OptIntList"), "_bymonth": ("bymonth", "OptIntList"),
              "_bynweekday": ("bynweekday", "OptPairList"), "_byeaster": ("byeaster", "OptIntList"),
              "_byhour": ("byhour", "OptIntList"), "_byminute": ("byminute", "OptIntList"),
              "_bysecond": ("bysecond", "OptIntList"), "_byweekday": ("byweekday", "OptIntList"),
              "_byyearday": ("byyearday", "OptIntList"), "_bysetpos": ("bysetpos", "OptIntList")}
II_ATTRS = {"lastyear": "OptInt", "lastmonth": "OptInt", "yearlen": "Int", "nextyearlen": "Int", "yearordinal": "Int",
            "yearweekday": "Int", "mmask": "IntList", "mdaymask": "IntList", "nmdaymask": "IntList", "wdaymask": "IntList",
            "mrange": "IntList", "wnomask": "OptIntList", "nwdaymask": "OptIntList", "eastermask": "OptIntList"}
TABLES = {"M366MASK", "M365MASK", "MDAY366MASK", "MDAY365MASK", "NMDAY366MASK", "NMDAY365MASK", "WDAYMASK",
          "M366RANGE", "M365RANGE"}
LEAN_KEYWORDS = {"end", "at", "from", "fun", "do", "then", "have", "show", "by", "open", "local", "instance", "where",
                 "match", "with", "in", "let", "if", "else", "def", "theorem", "namespace", "section", "variable", "set", "until"}


def lean_ty(t):
    if isinstance(t, tuple):
        return "(" + " × ".join(lean_ty(x) for x in t) + ")"
    return LEAN_TY[t]


def lean_ty_p(t):
    x = lean_ty(t)
    return x if (" " not in x or x.startswith("(")) else "(%s)" % x


def nm(n):
    return n + "_" if n in LEAN_KEYWORDS else n


class RFn:
    """one function to translate; kind = 'rule' (method of rrule: self is the rule) | 'info' (method of _iterinfo)"""
    def __init__(self, qualname, leanname, kind, params, ret, locals_=None, split=False):
        self.qualname, self.leanname, self.kind, self.params, self.ret = qualname, leanname, kind, params, ret
        self.locals = locals_ or {}
        self.split = split          # top-level `if` statements become definitions of their own


class RSec(RFn):
    """one top-level statement of `rrule.__init__` (the `if` that first tests / assigns `anchor`), as a function of the
    variables it reads (`params`) returning the variables in `outs`; `self._x` is the local `self__x`"""
    def __init__(self, qualname, leanname, anchor, params, outs, locals_=None):
        ret = "Unit" if not outs else (outs[0][1] if len(outs) == 1 else tuple(t for _, t in outs))
        RFn.__init__(self, qualname, leanname, "sec", params, ret, dict(locals_ or {}, **{n: t for n, t in outs}))
        self.anchor, self.outs = anchor, outs


def _is_orig(t):
    """`self._original_rule` or an item of it"""
    if isinstance(t, ast.Subscript): t = t.value
    return isinstance(t, ast.Attribute) and is_self(t.value) and t.attr == "_original_rule"


def clean_init(stmts):
    """`rrule.__init__` without what the sections do not model: the `_original_rule` bookkeeping (hand model `origArgs`),
    `warn(...)`, `global`, imports, `super().__init__`, and the `orig_*` locals that only feed the bookkeeping"""
    out = []
    for st in stmts:
        if isinstance(st, (ast.Global, ast.Import, ast.ImportFrom)): continue
        if isinstance(st, ast.Expr) and isinstance(st.value, ast.Call):
            f = st.value.func
            if isinstance(f, ast.Name) and f.id == "warn": continue
            if isinstance(f, ast.Attribute) and isinstance(f.value, ast.Call) and isinstance(f.value.func, ast.Name) and f.value.func.id == "super": continue
        if isinstance(st, ast.Assign) and len(st.targets) == 1:
            t = st.targets[0]
            if _is_orig(t): continue
            if isinstance(t, ast.Name) and t.id.startswith("orig_"): continue
        if isinstance(st, ast.If) and "tzinfo is not None" in ast.unparse(st.test) + "".join(ast.unparse(x) for x in st.body):
            continue        # UNTIL / DTSTART awareness check: `Args` carries ONE zone tag for both (not modelled)
        if isinstance(st, ast.If):
            body, orelse = clean_init(st.body), clean_init(st.orelse)
            if not body and not orelse: continue
            if not body:
                st = ast.If(test=ast.UnaryOp(op=ast.Not(), operand=st.test), body=orelse, orelse=[])
            else:
                st = ast.If(test=st.test, body=body, orelse=orelse)
        out.append(st)
    return out


def module_consts(tree):
    consts = {}
    for node in tree.body:
        if isinstance(node, ast.Assign) and len(node.targets) == 1:
            t, v = node.targets[0], node.value
            if isinstance(t, ast.Name) and isinstance(v, ast.Constant) and isinstance(v.value, int) and not isinstance(v.value, bool):
                consts[t.id] = v.value
            # (YEARLY, MONTHLY, …) = list(range(7))
            if isinstance(t, ast.Tuple) and isinstance(v, ast.Call) and isinstance(v.func, ast.Name) and v.func.id == "list" \
                    and len(v.args) == 1 and isinstance(v.args[0], ast.Call) and isinstance(v.args[0].func, ast.Name) \
                    and v.args[0].func.id == "range" and len(v.args[0].args) == 1 and isinstance(v.args[0].args[0], ast.Constant) \
                    and v.args[0].args[0].value == len(t.elts) and all(isinstance(e, ast.Name) for e in t.elts):
                for i, e in enumerate(t.elts):
                    consts[e.id] = i
    return consts


def is_self(e):
    return isinstance(e, ast.Name) and e.id == "self"


class RTr:
    def __init__(self, tree, spec, consts):
        self.spec, self.consts = spec, consts
        self.types = {}
        self.tmp = 0
        self.nloop = 0
        self.nsec = 0
        self.nest = 0
        self.aux = []
        self.loop = None          # dict(cont=fn()->lines, brk=fn()->lines, has_ret=bool, depth=int)
        self.rr_alias = set()     # local names bound to self.rrule
        self.written = []         # self slots assigned anywhere in the function
        self.nonnull = set()      # optional-typed variables known not to be None here (else-branch of `x is None`, or just assigned a value)
        for n, t in spec.params:
            self.types[n] = t
        if spec.kind == "info":
            for a, t in II_ATTRS.items():
                self.types["self_" + a] = t

    def fresh(self):
        self.tmp += 1
        return "t%d" % self.tmp

    # ------------------------------------------------------------------ names
    def is_rule(self, e):
        """expression denoting the (read-only) rule record"""
        if self.spec.kind == "rule" and is_self(e): return True
        if isinstance(e, ast.Name) and e.id in self.rr_alias: return True
        if self.spec.kind == "info" and isinstance(e, ast.Attribute) and is_self(e.value) and e.attr == "rrule": return True
        return False

    def slot(self, e):
        """`self.<slot>` of an _iterinfo method (or `self._x` in a section of `__init__`) -> local name, or None"""
        if self.spec.kind == "sec" and isinstance(e, ast.Attribute) and is_self(e.value):
            return "self_" + e.attr
        if self.spec.kind == "info" and isinstance(e, ast.Attribute) and is_self(e.value) and e.attr != "rrule":
            if e.attr not in II_ATTRS: raise Untranslatable("self.%s is not a slot of _iterinfo" % e.attr)
            return "self_" + e.attr
        return None

    def var(self, e):
        if isinstance(e, ast.Name): return e.id
        s = self.slot(e)
        if s: return s
        raise Untranslatable("assignment target %s" % type(e).__name__)

    # ------------------------------------------------------------------ reads / writes / liveness
    def reads(self, node):
        out = set()
        for n in ast.walk(node):
            if isinstance(n, ast.Name) and n.id != "self" and isinstance(n.ctx, ast.Load):
                out.add(n.id)
            elif isinstance(n, ast.Attribute) and is_self(n.value) and self.spec.kind in ("info", "sec") and n.attr != "rrule" \
                    and isinstance(n.ctx, ast.Load):
                out.add("self_" + n.attr)
        return out

    def targets(self, t):
        if isinstance(t, ast.Tuple):
            return [x for el in t.elts for x in self.targets(el)]
        return [self.var(t)]

    def assigned(self, stmts):
        out = []
        def add(n):
            if n not in out: out.append(n)
        for s in stmts:
            if isinstance(s, ast.Assign):
                for t in s.targets:
                    if isinstance(t, ast.Subscript): add(self.var(t.value))
                    else:
                        for n in self.targets(t): add(n)
            elif isinstance(s, ast.AugAssign):
                add(self.var(s.target))
            elif isinstance(s, ast.Expr) and isinstance(s.value, ast.Call) and isinstance(s.value.func, ast.Attribute) \
                    and s.value.func.attr in ("add", "append", "sort"):
                add(self.var(s.value.func.value))
            elif isinstance(s, ast.If):
                for n in self.assigned(s.body) + self.assigned(s.orelse): add(n)
            elif isinstance(s, ast.For):
                for n in self.targets(s.target) + self.assigned(s.body): add(n)
        return out

    def live(self, stmts, lo, lc=None, lb=None):
        """variables live before `stmts` given the set live after (lo), at `continue` (lc) and at `break` (lb)"""
        cur = set(lo)
        for s in reversed(stmts):
            if isinstance(s, ast.Assign):
                for t in s.targets:
                    if isinstance(t, ast.Subscript):
                        cur |= self.reads(t)
                    else:
                        cur -= set(self.targets(t))
                cur |= self.reads(s.value)
            elif isinstance(s, ast.AugAssign):
                cur |= {self.var(s.target)} | self.reads(s.value)
            elif isinstance(s, ast.Expr):
                cur |= self.reads(s.value)
            elif isinstance(s, (ast.Return, ast.Raise)):
                cur = self.reads(s) if not isinstance(s, ast.Raise) else set()
            elif isinstance(s, ast.Continue):
                if lc is None: raise Untranslatable("continue outside a loop")
                cur = set(lc)
            elif isinstance(s, ast.Break):
                if lb is None: raise Untranslatable("break outside a loop")
                cur = set(lb)
            elif isinstance(s, ast.If):
                cur = self.reads(s.test) | self.live(s.body, cur, lc, lb) | self.live(s.orelse, cur, lc, lb)
            elif isinstance(s, ast.For):
                cur = self.reads(s.iter) | self.loop_head_live(s, cur)
            else:
                raise Untranslatable(type(s).__name__)
        return cur

    def loop_head_live(self, s, lo):
        head = set(lo)
        tg = set(self.targets(s.target))
        while True:
            new = set(lo) | (self.live(s.body, head, head, lo) - tg)
            if new <= head: return head
            head |= new

    @staticmethod
    def terminates(stmts):
        if not stmts: return False
        last = stmts[-1]
        if isinstance(last, (ast.Return, ast.Raise, ast.Continue, ast.Break)): return True
        if isinstance(last, ast.If):
            return RTr.terminates(last.body) and RTr.terminates(last.orelse)
        return False

    @staticmethod
    def escapes(stmts):
        """contains return / raise / break / continue of THIS loop level on some path"""
        for s in stmts:
            if isinstance(s, (ast.Return, ast.Raise, ast.Continue, ast.Break)): return True
            if isinstance(s, ast.If) and (RTr.escapes(s.body) or RTr.escapes(s.orelse)): return True
            if isinstance(s, ast.For) and any(isinstance(n, ast.Return) for n in ast.walk(s)): return True
        return False

    # ------------------------------------------------------------------ expressions: (binds, text, type)
    def coerce(self, t, ty, want):
        if ty == want or want is None: return t
        if want in OPT_OF and ty == OPT_OF[want]: return "(some %s)" % t
        if want in OPT_OF and ty == "None": return "none"
        if want == "Int" and ty == "Bool": return "(RrPy.b2i %s)" % t
        if {ty, want} == {"IntList", "IntSet"}: return t
        if {ty, want} == {"PairList", "PairSet"}: return t
        if want == "OptIntList" and ty == "IntSet": return "(some %s)" % t
        if want == "OptPairList" and ty == "PairSet": return "(some %s)" % t
        if want == "OptIntList" and ty == "Int": return "(some [%s])" % t           # a scalar BY argument is the 1-tuple (Args convention)
        if want == "OptPairList" and ty == "Int": return "(some [(%s, 0)])" % t     # an int weekday is the weekday object without n
        if ty == "EmptyList" and want in ELEM: return "[]"
        if ty == "EmptyList" and want in OPT_OF and OPT_OF[want] in ELEM: return "(some [])"
        if want == "OptTimeList" and ty == "TimeList": return "(some %s)" % t
        if want == "Pair" and ty == ("Int", "Int"): return t
        if want == "Int" and ty == "OptInt": raise Untranslatable("optional int used as an int outside a branch that knows it is not None")
        if want == "OptIntList" and ty == "EmptyList": return "(some [])"
        raise Untranslatable("value of type %s where %s is expected" % (ty, want))

    def int_expr(self, e):
        b, t, ty = self.expr(e)
        return b, self.coerce(t, ty, "Int")

    def rule_attr(self, attr):
        if attr == "_tzinfo": return None
        if attr not in RULE_ATTRS: raise Untranslatable("rule attribute %s" % attr)
        return RULE_ATTRS[attr]

    def expr(self, e, want=None):
        if isinstance(e, ast.Constant):
            v = e.value
            if v is True: return [], "true", "Bool"
            if v is False: return [], "false", "Bool"
            if v is None: return [], "none", "None"
            if isinstance(v, int): return [], (str(v) if v >= 0 else "(%d)" % v), "Int"
            raise Untranslatable("constant %r" % (v,))
        if isinstance(e, (ast.Name, ast.Attribute)) and not (isinstance(e, ast.Name) and e.id not in self.types):
            n0 = e.id if isinstance(e, ast.Name) else self.slot(e)
            if n0 and n0 in self.nonnull and self.types.get(n0) in OPT_OF:
                return [], "(RrPy.the %s)" % nm(n0), OPT_OF[self.types[n0]]
        if isinstance(e, ast.Set) and e.elts:
            binds, parts = [], []
            for el in e.elts:
                b, t = self.int_expr(el)
                binds += b; parts.append(t)
            return binds, "[" + ", ".join(parts) + "]", "IntSet"       # distinct members are the caller's business: only 1-sets occur
        if isinstance(e, ast.Name):
            if e.id in self.types: return [], nm(e.id), self.types[e.id]
            if e.id in self.consts:
                v = self.consts[e.id]
                return [], (str(v) if v >= 0 else "(%d)" % v), "Int"
            if e.id in TABLES: return [], "Gen." + e.id, "IntList"
            raise Untranslatable("unbound or untyped name %s" % e.id)
        if isinstance(e, ast.Attribute):
            s = self.slot(e)
            if s: return [], s, self.types[s]
            if self.is_rule(e.value):
                f, ty = self.rule_attr(e.attr)
                return [], "rr.%s" % f, ty
            bv, tv, tyv = self.expr(e.value)
            if tyv == "DT" and e.attr in DT_ATTRS: return bv, "%s.%s" % (tv, DT_ATTRS[e.attr]), "Int"
            if tyv == "DT" and e.attr == "tzinfo" and "tz" in self.types: return bv, "tz", "Int"     # the zone tag of `Args`
            if tyv == "Pair" and e.attr in ("weekday", "n"): return bv, "%s.%s" % (tv, "1" if e.attr == "weekday" else "2"), "Int"
            raise Untranslatable("attribute .%s" % e.attr)
        if isinstance(e, ast.UnaryOp):
            if isinstance(e.op, ast.USub):
                b, t = self.int_expr(e.operand)
                return b, "(-%s)" % t, "Int"
            if isinstance(e.op, ast.Not):
                b, c = self.cond(e)
                return b, "(decide %s)" % c, "Bool"
            raise Untranslatable("unary %s" % type(e.op).__name__)
        if isinstance(e, ast.BinOp):
            if isinstance(e.op, ast.Mult) and isinstance(e.left, ast.List) and len(e.left.elts) == 1:
                el = e.left.elts[0]
                b, n = self.int_expr(e.right)
                if isinstance(el, ast.Constant) and el.value is None:
                    return b, "(RrPy.repeatL (none : Option Int) %s)" % n, "Slots"
                b0, v = self.int_expr(el)
                return b0 + b, "(RrPy.repeatL %s %s)" % (v, n), "IntList"
            bl, l = self.int_expr(e.left)
            br, r = self.int_expr(e.right)
            sym = {ast.Add: "+", ast.Sub: "-", ast.Mult: "*"}.get(type(e.op))
            if sym: return bl + br, "(%s %s %s)" % (l, sym, r), "Int"
            poslit = isinstance(e.right, ast.Constant) and isinstance(e.right.value, int) \
                and not isinstance(e.right.value, bool) and e.right.value > 0
            if isinstance(e.op, ast.FloorDiv) and poslit: return bl + br, "(%s / %s)" % (l, r), "Int"
            if isinstance(e.op, ast.Mod) and poslit: return bl + br, "(%s %% %s)" % (l, r), "Int"
            raise Untranslatable("binary operator %s (divisor not a positive literal)" % type(e.op).__name__)
        if isinstance(e, (ast.Compare, ast.BoolOp)):
            b, c = self.cond(e)
            return b, "(decide %s)" % c, "Bool"
        if isinstance(e, ast.Subscript):
            return self.subscript(e)
        if isinstance(e, ast.Tuple) and not e.elts:
            return [], "[]", "EmptyList"
        if isinstance(e, ast.Tuple):
            binds, parts, tys = [], [], []
            for el in e.elts:
                b, t, ty = self.expr(el)
                binds += b; parts.append(t); tys.append(ty)
            if len(parts) == 1:
                if want in ELEM and tys[0] == ELEM[want]: return binds, "[%s]" % parts[0], want
                if want in ("OptIntList", None) and tys[0] == "Int": return binds, "[%s]" % parts[0], "IntList"
                raise Untranslatable("1-tuple of %s" % tys[0])
            if want == "IntList" and all(t == "Int" for t in tys): return binds, "[" + ", ".join(parts) + "]", "IntList"
            return binds, "(" + ", ".join(parts) + ")", tuple(tys)
        if isinstance(e, ast.List):
            if not e.elts: return [], "[]", "EmptyList"
            elt_want = ELEM.get(want)
            binds, parts, tys = [], [], []
            for el in e.elts:
                b, t, ty = self.expr(el, elt_want)
                binds += b; parts.append(self.coerce(t, ty, elt_want)); tys.append(elt_want or ty)
            lt = {v: k for k, v in ELEM.items() if k != "IntSet"}.get(tys[0])
            if lt is None or any(t != tys[0] for t in tys): raise Untranslatable("list display of %s" % (tys,))
            return binds, "[" + ", ".join(parts) + "]", lt
        if isinstance(e, ast.Call):
            return self.call(e, want)
        raise Untranslatable(type(e).__name__)

    def subscript(self, e):
        b0, base, ty = self.expr(e.value)
        sl = e.slice
        if isinstance(sl, ast.Slice):
            if sl.step is not None: raise Untranslatable("slice with a step")
            if ty not in ("IntList",): raise Untranslatable("slice of %s" % (ty,))
            binds = list(b0)
            def part(x):
                if x is None: return "none"
                b, t = self.int_expr(x)
                binds.extend(b)
                return "(some %s)" % t
            lo, hi = part(sl.lower), part(sl.upper)
            n = self.fresh()
            return binds + [(n, "Py.slice %s %s %s none" % (base, lo, hi))], n, "IntList"
        if isinstance(ty, tuple):
            if not (isinstance(sl, ast.Constant) and isinstance(sl.value, int) and 0 <= sl.value < len(ty)):
                raise Untranslatable("tuple index")
            k = sl.value
            proj = ".1" if k == 0 else (".2" * k + (".1" if k < len(ty) - 1 else ""))
            return b0, "%s%s" % (base, proj), ty[k]
        bi, i = self.int_expr(sl)
        n = self.fresh()
        if ty in ELEM:
            return b0 + bi + [(n, "Py.getIdx %s %s" % (base, i))], n, ELEM[ty]
        if ty in ("OptIntList", "OptPairList"):
            return b0 + bi + [(n, "RrPy.getItemO %s %s" % (base, i))], n, ELEM[OPT_OF[ty]]
        raise Untranslatable("subscript of %s" % (ty,))

    def call(self, e, want=None):
        f = e.func
        if isinstance(f, ast.Name):
            fn = f.id
            if fn == "divmod" and len(e.args) == 2:
                ba, a = self.int_expr(e.args[0])
                bb, d = self.int_expr(e.args[1])
                r = e.args[1]
                if isinstance(r, ast.Constant) and isinstance(r.value, int) and not isinstance(r.value, bool) and r.value > 0:
                    return ba + bb, "(Py.divmod %s %s)" % (a, d), ("Int", "Int")
                n = self.fresh()
                return ba + bb + [(n, "RrPy.divmodR %s %s" % (a, d))], n, ("Int", "Int")
            if fn == "gcd" and len(e.args) == 2:
                ba, a = self.int_expr(e.args[0])
                bb, d = self.int_expr(e.args[1])
                return ba + bb, "(RrPy.gcd %s %s)" % (a, d), "Int"
            if fn == "len" and len(e.args) == 1:
                b, t, ty = self.expr(e.args[0])
                if ty not in ELEM: raise Untranslatable("len of %s" % (ty,))
                return b, "(%s.length : Int)" % t, "Int"
            if fn == "set" and not e.args:
                return [], "[]", "PairSet" if want in ("PairSet", "OptPairList") else "IntSet"
            if fn == "tuple" and len(e.args) == 1 and not e.keywords:
                b, t, ty = self.expr(e.args[0])
                if ty in ("IntList", "IntSet"): return b, t, "IntList"
                if ty in ("PairList", "PairSet"): return b, t, "PairList"
                if ty == "TimeList": return b, t, ty
                raise Untranslatable("tuple(<%s>)" % (ty,))
            if fn == "set" and len(e.args) == 1 and not e.keywords:
                b, t, ty = self.expr(e.args[0])
                if ty in ("IntList", "IntSet"): return b, "(RRule.dedup [] %s)" % t, "IntSet"
                raise Untranslatable("set(<%s>)" % (ty,))
            if fn == "sorted" and len(e.args) == 1 and not e.keywords:
                a0 = e.args[0]
                if isinstance(a0, ast.GeneratorExp):
                    g = a0.generators
                    if not (len(g) == 1 and isinstance(g[0].target, ast.Name) and len(g[0].ifs) == 1 and isinstance(a0.elt, ast.Name)
                            and a0.elt.id == g[0].target.id and not g[0].is_async):
                        raise Untranslatable("generator expression")
                    b, t, ty = self.expr(g[0].iter)
                    if ty not in ("IntList", "IntSet"): raise Untranslatable("generator over %s" % (ty,))
                    saved = self.types.get(g[0].target.id)
                    self.types[g[0].target.id] = "Int"
                    bc, c = self.cond(g[0].ifs[0])
                    if saved is None: del self.types[g[0].target.id]
                    else: self.types[g[0].target.id] = saved
                    if bc: raise Untranslatable("generator condition that can raise")
                    return b, "(RRule.sortBy RRule.ltInt (%s.filter (fun %s => decide %s)))" % (t, nm(g[0].target.id), c), "IntList"
                b, t, ty = self.expr(a0)
                if ty in ("IntList", "IntSet"): return b, "(RRule.sortBy RRule.ltInt %s)" % t, "IntList"
                if ty in ("PairList", "PairSet"): return b, "(RRule.sortBy RRule.ltPair %s)" % t, "PairList"
                raise Untranslatable("sorted(<%s>)" % (ty,))
            if fn == "isinstance" and len(e.args) == 2 and isinstance(e.args[1], ast.Attribute) and ast.unparse(e.args[1]) == "datetime.datetime":
                b, t, ty = self.expr(e.args[0])
                if ty in ("DT", "OptDT") and not b: return [], "true", "StaticTrue"      # `Args`: dtstart / until are datetimes
                raise Untranslatable("isinstance(<%s>, datetime.datetime)" % (ty,))
            if fn == "hasattr" and len(e.args) == 2:
                b, t, ty = self.expr(e.args[0])
                if ty in ELEM and not b: return [], "false", "StaticFalse"      # a list has no attribute
                raise Untranslatable("hasattr")
            if fn == "list" and len(e.args) == 1 and self.is_range(e.args[0]):
                return self.range_list(e.args[0])
            if fn == "isinstance" and len(e.args) == 2 and isinstance(e.args[1], ast.Name) and e.args[1].id == "integer_types":
                b, t, ty = self.expr(e.args[0])
                if (ty in ELEM or ty in ("OptIntList", "OptPairList", "Pair")) and not b: return [], "false", "StaticFalse"
                if ty in ("Int", "OptInt") and not b: return [], "true", "StaticTrue"
                raise Untranslatable("isinstance(<%s>, integer_types)" % (ty,))
            raise Untranslatable("call %s" % fn)
        if isinstance(f, ast.Attribute):
            tgt = f.value
            if isinstance(tgt, ast.Name) and tgt.id == "calendar" and f.attr == "firstweekday" and not e.args and "fwd" in self.types:
                return [], "fwd", "Int"          # the process-wide first weekday is an explicit input (`constructW k`)
            if isinstance(tgt, ast.Name) and tgt.id == "calendar" and f.attr == "isleap" and len(e.args) == 1:
                b, y = self.int_expr(e.args[0])
                return b, "(Cal.isLeap %s)" % y, "Bool"
            if isinstance(tgt, ast.Name) and tgt.id == "datetime" and f.attr == "date" and len(e.args) == 3 and not e.keywords:
                binds, parts = [], []
                for a in e.args:
                    b, t = self.int_expr(a)
                    binds += b; parts.append(t)
                n = self.fresh()
                return binds + [(n, "RrPy.mkDate %s" % " ".join(parts))], n, "Date"
            if isinstance(tgt, ast.Name) and tgt.id == "datetime" and f.attr == "time" and len(e.args) == 3:
                # tzinfo=rr._tzinfo: the zone tag is carried by the rule, a wall time is (h, m, s)
                if any(k.arg != "tzinfo" for k in e.keywords): raise Untranslatable("datetime.time keyword")
                binds, parts = [], []
                for a in e.args:
                    b, t = self.int_expr(a)
                    binds += b; parts.append(t)
                n = self.fresh()
                return binds + [(n, "RRule.mkTime %s" % " ".join(parts))], n, "Time"
            if isinstance(tgt, ast.Name) and tgt.id == "easter" and f.attr == "easter" and len(e.args) == 1 and not e.keywords:
                b, y = self.int_expr(e.args[0])
                n = self.fresh()
                return b + [(n, "RrPy.easterDate %s" % y)], n, "Date"
            if is_self(tgt) and f.attr.endswith("__construct_byset") and self.spec.kind == "sec" and not e.args:
                kw = {k.arg: k.value for k in e.keywords}
                if set(kw) != {"start", "byxxx", "base"}: raise Untranslatable("keywords of __construct_byset")
                b1, st_ = self.int_expr(kw["start"])
                b2, bx, bty = self.expr(kw["byxxx"])
                b3, ba = self.int_expr(kw["base"])
                if bty not in ("IntList", "IntSet"): raise Untranslatable("byxxx of type %s" % (bty,))
                if "self__interval" not in self.types: raise Untranslatable("self._interval not assigned before __construct_byset")
                n = self.fresh()
                # the method reads only `_interval` of the object under construction
                return b1 + b2 + b3 + [(n, "constructByset { (default : RRule.Rule) with interval := self__interval } %s %s %s" % (st_, bx, ba))], n, "IntSet"
            if f.attr == "weekday" and not e.args:
                b, t, ty = self.expr(tgt)
                if ty == "DT": return b, "%s.weekday" % t, "Int"
            if f.attr == "replace" and not e.args and len(e.keywords) == 1 and e.keywords[0].arg == "microsecond" \
                    and isinstance(e.keywords[0].value, ast.Constant) and e.keywords[0].value.value == 0:
                b, t, ty = self.expr(tgt)
                if ty == "DT": return b, "{ %s with us := 0 }" % t, "DT"
            if f.attr in ("toordinal", "weekday") and not e.args:
                b, t, ty = self.expr(tgt)
                if ty != "Date": raise Untranslatable(".%s() on %s" % (f.attr, ty))
                return b, "(RrPy.%s %s)" % (f.attr, t), "Int"
        raise Untranslatable("call %s" % ast.dump(f)[:80])

    def is_range(self, e):
        return isinstance(e, ast.Call) and isinstance(e.func, ast.Name) and e.func.id == "range" and 1 <= len(e.args) <= 2

    def range_list(self, e):
        if len(e.args) == 1:
            b, n = self.int_expr(e.args[0])
            return b, "(RRule.intRange 0 %s)" % n, "IntList"
        ba, a = self.int_expr(e.args[0])
        bb, c = self.int_expr(e.args[1])
        return ba + bb, "(RRule.intRange %s %s)" % (a, c), "IntList"

    # conditions: (binds, Prop text)
    def cond(self, e):
        if isinstance(e, ast.BoolOp):
            op = " ∧ " if isinstance(e.op, ast.And) else " ∨ "
            conds = [self.cond(v) for v in e.values]
            absorbing, neutral = ("False", "True") if isinstance(e.op, ast.And) else ("True", "False")
            if any(c == absorbing and not b for b, c in conds): return [], absorbing
            conds = [(b, c) for b, c in conds if c != neutral] or [([], neutral)]
            if len(conds) == 1: return conds[0]
            if any(b for b, _ in conds[1:]):
                # short-circuit around an operand that can raise:  a or b  ↦  if a then true else (do binds_b; b)
                is_or = isinstance(e.op, ast.Or)
                b_last, c_last = conds[-1]
                text = "(do %s pure (decide %s))" % ("".join("let %s ← %s; " % (n, t) for n, t in b_last), c_last)
                for b, c in reversed(conds[1:-1]):
                    pre = "".join("let %s ← %s; " % (n, t) for n, t in b)
                    text = "(do %sif %s then %s else %s)" % (pre, c, "pure true" if is_or else text, text if is_or else "pure false")
                b0, c0 = conds[0]
                text = "(if %s then %s else %s)" % (c0, "pure true" if is_or else text, text if is_or else "pure false")
                n = self.fresh()
                return b0 + [(n, text)], "(%s = true)" % n
            binds, parts = [], []
            for b, c in conds:
                binds += b; parts.append(c)
            return binds, "(" + op.join(parts) + ")"
        if isinstance(e, ast.UnaryOp) and isinstance(e.op, ast.Not):
            b, c = self.cond(e.operand)
            if c in ("True", "False"): return b, ("False" if c == "True" else "True")
            return b, "(¬ %s)" % c
        if isinstance(e, ast.Compare):
            binds, parts = [], []
            left = e.left
            for op, right in zip(e.ops, e.comparators):
                if isinstance(op, (ast.In, ast.NotIn)):
                    bl, l = self.int_expr(left)
                    br, r, rty = self.expr(right)
                    if rty in ("IntList", "IntSet"):
                        c = "(%s.contains %s = true)" % (r, l)
                    elif rty == "OptIntList":
                        n = self.fresh()
                        br = br + [(n, "RrPy.inO %s %s" % (l, r))]
                        c = "(%s = true)" % n
                    else:
                        raise Untranslatable("membership in %s" % (rty,))
                    binds += bl + br
                    parts.append(c if isinstance(op, ast.In) else "(¬ %s)" % c)
                elif isinstance(op, (ast.Is, ast.IsNot)):
                    if not (isinstance(right, ast.Constant) and right.value is None): raise Untranslatable("is / is not")
                    nl = left.id if isinstance(left, ast.Name) else self.slot(left)
                    if not nl or self.types.get(nl) not in OPT_OF: raise Untranslatable("is None on a value that is not optional")
                    parts.append("(%s %s none)" % (nm(nl), "=" if isinstance(op, ast.Is) else "≠"))
                else:
                    sym = {ast.Lt: "<", ast.LtE: "≤", ast.Gt: ">", ast.GtE: "≥", ast.Eq: "=", ast.NotEq: "≠"}.get(type(op))
                    if sym is None: raise Untranslatable("comparison %s" % type(op).__name__)
                    bl, l, lty = self.expr(left)
                    br, r, rty = self.expr(right)
                    if "OptInt" in (lty, rty) and sym in ("=", "≠"):
                        l, r = self.coerce(l, lty, "OptInt"), self.coerce(r, rty, "OptInt")
                    else:
                        l, r = self.coerce(l, lty, "Int"), self.coerce(r, rty, "Int")
                    binds += bl + br
                    parts.append("(%s %s %s)" % (l, sym, r))
                left = right
            return binds, parts[0] if len(parts) == 1 else "(" + " ∧ ".join(parts) + ")"
        b, t, ty = self.expr(e)
        if ty == "Bool": return b, "(%s = true)" % t
        if ty == "StaticFalse": return b, "False"
        if ty == "StaticTrue": return b, "True"
        if ty in ("DT",): return b, "True"
        if ty == "OptDT": return b, "(%s.isSome = true)" % t
        if ty == "Int": return b, "(%s ≠ 0)" % t
        if ty in ("OptIntList", "OptPairList"): return b, "(RRule.truthy %s = true)" % t
        if ty in ELEM: return b, "(%s.isEmpty = false)" % t
        raise Untranslatable("truthiness of %s" % (ty,))

    # ------------------------------------------------------------------ statements
    @staticmethod
    def ind(lines, n=1):
        return ["  " * n + l for l in lines]

    def emit_binds(self, binds):
        return ["let %s ← %s" % (n, t) for n, t in binds]

    def tup(self, vs):
        if not vs: return "()"
        return nm(vs[0]) if len(vs) == 1 else "(" + ", ".join(nm(v) for v in vs) + ")"

    def tup_ty(self, vs):
        if not vs: return "Unit"
        return " × ".join(lean_ty(self.types.get(v, "Int")) for v in vs)

    def set_type(self, n, ty):
        declared = self.spec.locals.get(n) or (II_ATTRS.get(n[5:]) if n.startswith("self_") and self.spec.kind == "info" else None)
        self.types[n] = declared or ty

    def assign_to(self, target, text, ty):
        """lines binding `target` to the pure value `text : ty`"""
        if isinstance(target, ast.Tuple):
            names = [self.var(t) for t in target.elts]
            if isinstance(ty, tuple) and len(ty) == len(names):
                for n, t in zip(names, ty): self.set_type(n, t)
                return ["let (%s) := %s" % (", ".join(nm(n) for n in names), text)]
            if ty == "IntList" and len(names) == 2:
                for n in names: self.set_type(n, "Int")
                return ["let (%s, %s) ← RrPy.unpack2 %s" % (nm(names[0]), nm(names[1]), text)]
            raise Untranslatable("unpacking of %s" % (ty,))
        n = self.var(target)
        if n.startswith("self_") and n[5:] not in self.written: self.written.append(n[5:])
        want = self.spec.locals.get(n) or (self.types.get(n) if n.startswith("self_") else None)
        if want in OPT_OF:
            if ty == "None": self.nonnull.discard(n)
            else: self.nonnull.add(n)
        elif n in self.nonnull and not want:
            self.nonnull.discard(n)
        text = self.coerce(text, ty, want) if want else text
        if not want and ty in ("None", "EmptyList"): raise Untranslatable("type of %s unknown (declare it in the spec)" % n)
        self.set_type(n, want or ty)
        return ["let %s := %s" % (nm(n), text)]

    def block(self, stmts, k, lo):
        """lines for `stmts` followed by the continuation k() ; lo = variables live at k"""
        if not stmts:
            return k()
        s, rest = stmts[0], stmts[1:]
        if isinstance(s, ast.Expr) and isinstance(s.value, ast.Constant):
            return self.block(rest, k, lo)
        if isinstance(s, ast.Assign):
            # `rr = self.rrule`
            if len(s.targets) == 1 and isinstance(s.targets[0], ast.Name) and self.spec.kind == "info" \
                    and isinstance(s.value, ast.Attribute) and is_self(s.value.value) and s.value.attr == "rrule":
                self.rr_alias.add(s.targets[0].id)
                return self.block(rest, k, lo)
            if len(s.targets) == 1 and isinstance(s.targets[0], ast.Subscript):
                t = s.targets[0]
                n = self.var(t.value)
                ty = self.types.get(n)
                bi, i = self.int_expr(t.slice)
                bv, v, vty = self.expr(s.value)
                if ty in ("IntList", "Slots"):
                    v = self.coerce(v, vty, ELEM[ty])
                    line = "let %s ← RrPy.setItem %s %s %s" % (nm(n), nm(n), i, v)
                elif ty == "OptIntList":
                    v = self.coerce(v, vty, "Int")
                    line = "let %s ← RrPy.setItemO %s %s %s" % (nm(n), nm(n), i, v)
                else:
                    raise Untranslatable("item assignment on %s" % (ty,))
                if n.startswith("self_") and n[5:] not in self.written: self.written.append(n[5:])
                return self.emit_binds(bi + bv) + [line] + self.block(rest, k, lo)
            want = None
            t0 = s.targets[0]
            if not isinstance(t0, ast.Tuple):
                n0 = self.var(t0)
                want = self.spec.locals.get(n0) or (self.types.get(n0) if n0.startswith("self_") else None)
            b, v, ty = self.expr(s.value, want)
            lines = self.emit_binds(b)
            if len(s.targets) > 1:
                tmp = self.fresh()
                lines.append("let %s := %s" % (tmp, v))
                v = tmp
            for t in reversed(s.targets):       # Python assigns left to right; the targets are distinct names
                lines += self.assign_to(t, v, ty)
            return lines + self.block(rest, k, lo)
        if isinstance(s, ast.AugAssign):
            n = self.var(s.target)
            sym = {ast.Add: "+", ast.Sub: "-"}.get(type(s.op))
            if sym is None or self.types.get(n) != "Int": raise Untranslatable("augmented assignment")
            b, v = self.int_expr(s.value)
            if n.startswith("self_") and n[5:] not in self.written: self.written.append(n[5:])
            return self.emit_binds(b) + ["let %s := (%s %s %s)" % (nm(n), nm(n), sym, v)] + self.block(rest, k, lo)
        if isinstance(s, ast.Expr) and isinstance(s.value, ast.Call) and isinstance(s.value.func, ast.Attribute):
            c = s.value
            n = self.var(c.func.value)
            ty = self.types.get(n)
            m = c.func.attr
            if ty in OPT_OF and n in self.nonnull and m in ("add", "append", "sort"):
                # a slot declared optional that holds a value here: operate on the value
                inner = {"OptIntList": "IntSet", "OptPairList": "PairSet", "OptTimeList": "TimeList"}.get(ty)
                cur = "(RrPy.the %s)" % nm(n)
                if m == "add" and inner in ("IntSet", "PairSet") and len(c.args) == 1:
                    b, v, vty = self.expr(c.args[0])
                    v = self.coerce(v, vty, ELEM[inner])
                    return self.emit_binds(b) + ["let %s := some (RrPy.setAdd %s %s)" % (nm(n), cur, v)] + self.block(rest, k, lo)
                if m == "append" and inner == "TimeList" and len(c.args) == 1:
                    b, v, vty = self.expr(c.args[0], "Time")
                    return self.emit_binds(b) + ["let %s := some (%s ++ [%s])" % (nm(n), cur, v)] + self.block(rest, k, lo)
                if m == "sort" and inner == "TimeList" and not c.args:
                    return ["let %s := some (RRule.sortBy RRule.ltHMS %s)" % (nm(n), cur)] + self.block(rest, k, lo)
                raise Untranslatable("method call .%s on %s" % (m, ty))
            if m == "add" and ty == "IntSet" and len(c.args) == 1:
                b, v = self.int_expr(c.args[0])
                return self.emit_binds(b) + ["let %s := RrPy.setAdd %s %s" % (nm(n), nm(n), v)] + self.block(rest, k, lo)
            if m == "append" and ty in ELEM and len(c.args) == 1:
                b, v, vty = self.expr(c.args[0], ELEM[ty])
                v = self.coerce(v, vty, ELEM[ty])
                return self.emit_binds(b) + ["let %s := %s ++ [%s]" % (nm(n), nm(n), v)] + self.block(rest, k, lo)
            if m == "sort" and ty == "TimeList" and not c.args and not c.keywords:
                return ["let %s := RRule.sortBy RRule.ltHMS %s" % (nm(n), nm(n))] + self.block(rest, k, lo)
            raise Untranslatable("method call .%s on %s" % (m, ty))
        if isinstance(s, ast.Raise):
            exc = s.exc
            name = exc.func.id if isinstance(exc, ast.Call) and isinstance(exc.func, ast.Name) else \
                (exc.id if isinstance(exc, ast.Name) else None)
            if name not in ERRS: raise Untranslatable("raise %r" % name)
            return ["throw Py.PyErr.%s" % name]
        if isinstance(s, ast.Return):
            return self.ret_lines(s.value)
        if isinstance(s, ast.Continue):
            if not self.loop: raise Untranslatable("continue outside a loop")
            return self.loop["cont"]()
        if isinstance(s, ast.Break):
            if not self.loop: raise Untranslatable("break outside a loop")
            return self.loop["brk"]()
        if isinstance(s, ast.If):
            return self.do_if(s, rest, k, lo)
        if isinstance(s, ast.For):
            return self.do_for(s, rest, k, lo)
        raise Untranslatable(type(s).__name__)

    def ret_lines(self, value):
        ret = self.spec.ret
        if value is None:
            b, v, ty = [], "none", "None"
        else:
            b, v, ty = self.expr(value, ret if isinstance(ret, str) else None)
        if isinstance(ret, tuple):
            if not (isinstance(ty, tuple) and len(ty) == len(ret)): raise Untranslatable("return of %s" % (ty,))
            if any(a != c and {a, c} != {"IntList", "IntSet"} for a, c in zip(ty, ret)): raise Untranslatable("return of %s" % (ty,))
        elif ret == "OptPair" and ty == ("Int", "Int"):
            v = "(some %s)" % v
        else:
            v = self.coerce(v, ty, ret)
        if self.loop:
            if not (self.loop["has_ret"] and self.loop["depth"] == 1): raise Untranslatable("return inside a nested loop")
            v = "(RrPy.Flow.ret %s)" % v
        return self.emit_binds(b) + ["pure %s" % v]

    def branch(self, stmts, k, lo, which=None, narrow=None):
        saved = dict(self.types)
        saved_nn = set(self.nonnull)
        if narrow and narrow[1] == which and narrow[0]: self.nonnull.add(narrow[0])
        self.nest += 1
        lines = self.block(stmts, k, lo)
        self.nest -= 1
        self.types = saved
        self._nn_end = set(self.nonnull)
        self.nonnull = saved_nn
        return lines or ["pure ()"]

    def prune(self, stmts):
        """replace nested `if`s whose test is statically decided by the branch taken (so that a `raise` in dead code does not
        make the enclosing `if` look like it escapes)"""
        out = []
        for st in stmts:
            if isinstance(st, ast.If):
                try:
                    saved_tmp = self.tmp
                    b, c = self.cond(st.test)
                    self.tmp = saved_tmp
                except (Untranslatable, KeyError):      # not decidable here (e.g. a slot that is assigned later in the branch)
                    c = None
                if c == "False": out += self.prune(st.orelse); continue
                if c == "True": out += self.prune(st.body); continue
            out.append(st)
        return out

    def do_if(self, s, rest, k, lo):
        binds, c = self.cond(s.test)
        pre = self.emit_binds(binds)
        if c == "False":                       # statically false test: the branch is dropped
            return self.block(list(s.orelse) + rest, k, lo)
        if c == "True":
            return self.block(list(s.body) + rest, k, lo)
        # `x is None` / `x is not None`: the other branch knows x is a value
        self._narrow = None
        t0 = s.test
        if isinstance(t0, ast.Compare) and len(t0.ops) == 1 and isinstance(t0.ops[0], (ast.Is, ast.IsNot)) \
                and isinstance(t0.comparators[0], ast.Constant) and t0.comparators[0].value is None:
            nl = t0.left.id if isinstance(t0.left, ast.Name) else self.slot(t0.left)
            self._narrow = (nl, "orelse" if isinstance(t0.ops[0], ast.Is) else "body")
        if self.spec.kind == "sec":
            s = ast.If(test=s.test, body=self.prune(s.body), orelse=self.prune(s.orelse))
        tb, te = self.terminates(s.body), self.terminates(s.orelse)
        sectioned = self.spec.split and self.nest <= 1 and not self.loop
        if tb or te or self.escapes(s.body) or self.escapes(s.orelse) or (not rest and not sectioned):
            nr = self._narrow
            a = self.branch(list(s.body) + ([] if tb else rest), k, lo, "body", nr)
            b = self.branch(list(s.orelse) + ([] if te else rest), k, lo, "orelse", nr)
            return pre + ["if %s then" % c] + self.ind(a) + ["else"] + self.ind(b)
        live_after = self.live(rest, lo, self.loop["lc"] if self.loop else None, self.loop["lb"] if self.loop else None)
        vs = [v for v in self.assigned([s]) if v in live_after]
        if not vs:
            raise Untranslatable("if without a live effect")
        dummies = []
        types_before = dict(self.types)
        for v in vs:
            if v not in self.types:
                ty = self.spec.locals.get(v, "Int")
                self.types[v] = ty
                dummies.append("let %s : %s := %s   -- unbound here in Python" % (nm(v), lean_ty(ty), DEFAULT[ty]))
        done = lambda: ["pure %s" % self.tup(vs)]
        saved_loop = self.loop
        nr = self._narrow
        a = self.branch(list(s.body), done, set(vs) | live_after, "body", nr)
        nn_a = self._nn_end
        b = self.branch(list(s.orelse), done, set(vs) | live_after, "orelse", nr)
        self.nonnull = (self.nonnull - set(vs)) | (nn_a & self._nn_end & set(vs))
        # types assigned inside the branches
        for v in vs: self.set_type(v, self.types.get(v, "Int"))
        self.loop = saved_loop
        if sectioned:
            # a top-level `if` of a long method becomes its own definition (same join, named): one obligation per section
            self.nsec += 1
            name = "%s_if%d" % (self.spec.leanname, self.nsec)
            ins = sorted(v for v in self.live([s], set(vs), None, None) if v in types_before)
            uses_rr = any(self.is_rule(n) for n in ast.walk(s) if isinstance(n, (ast.Name, ast.Attribute)))
            params = (["(rr : RRule.Rule)"] if uses_rr else []) + ["(%s : %s)" % (nm(v), lean_ty(types_before[v])) for v in ins]
            text = "def %s %s : Py.R (%s) := do\n" % (name, " ".join(params), self.tup_ty(vs))
            text += "\n".join(self.ind(pre + dummies + ["if %s then" % c] + self.ind(a) + ["else"] + self.ind(b))) + "\n"
            self.aux.append(text)
            call = name + (" rr" if uses_rr else "") + "".join(" " + nm(v) for v in ins)
            return ["let %s ← %s" % (self.tup(vs), call)] + self.block(rest, k, lo)
        lines = pre + dummies + ["let %s ← (do" % self.tup(vs)] + self.ind(["if %s then" % c] + self.ind(a) + ["else"] + self.ind(b), 2)
        lines[-1] += ")"
        return lines + self.block(rest, k, lo)

    def iterable(self, e):
        """(binds, list text, element type)"""
        if self.is_range(e):
            b, t, _ = self.range_list(e)
            return b, t, "Int"
        b, t, ty = self.expr(e)
        if ty in ELEM: return b, t, ELEM[ty]
        if ty in ("OptIntList", "OptPairList"):
            n = self.fresh()
            return b + [(n, "RrPy.iterO %s" % t)], n, ELEM[OPT_OF[ty]]
        raise Untranslatable("iteration over %s" % (ty,))

    def do_for(self, s, rest, k, lo):
        if s.orelse: raise Untranslatable("for … else")
        binds, lst, ety = self.iterable(s.iter)
        lc0, lb0 = (self.loop["lc"], self.loop["lb"]) if self.loop else (None, None)
        l_exit = self.live(rest, lo, lc0, lb0)
        has_ret = any(isinstance(n, ast.Return) for n in ast.walk(s))
        if has_ret and self.loop: raise Untranslatable("return inside a nested loop")
        l_head = self.loop_head_live(s, l_exit)
        tg = self.targets(s.target)
        inner_assigned = tg + [v for v in self.assigned(s.body) if v not in tg]
        carried = [v for v in inner_assigned if v in l_head]
        pre = self.emit_binds(binds)
        for v in carried:
            if v not in self.types:
                ty = self.spec.locals.get(v, "Int")
                self.types[v] = ty
                pre.append("let %s : %s := %s   -- unbound here in Python" % (nm(v), lean_ty(ty), DEFAULT[ty]))
        body_reads = self.live(s.body, set(), set(), set())      # read in the body before any assignment there
        free = sorted(v for v in body_reads if v in self.types and v not in carried and v not in tg)
        uses_rr = self.spec.kind == "rule" and any(is_self(n) for n in ast.walk(ast.Module(body=s.body, type_ignores=[]))) or \
            any(self.is_rule(n) for n in ast.walk(ast.Module(body=s.body, type_ignores=[])) if isinstance(n, (ast.Name, ast.Attribute)))
        self.nloop += 1
        name = "%s_loop%d" % (self.spec.leanname, self.nloop)
        ctypes = [self.types[v] for v in carried]
        # ---- the auxiliary function
        saved_types, saved_loop = dict(self.types), self.loop
        params = (["(rr : RRule.Rule)"] if uses_rr else []) + ["(%s : %s)" % (nm(v), lean_ty(self.types[v])) for v in free]
        call_prefix = name + (" rr" if uses_rr else "") + "".join(" " + nm(v) for v in free)
        returned = [v for v in carried if v in l_exit]        # the carried variables still live after the loop
        res_ok = (lambda: "(RrPy.Flow.next %s)" % self.tup(returned)) if has_ret else (lambda: self.tup(returned))
        self.loop = dict(cont=lambda: ["%s rest_%s" % (call_prefix, "".join(" " + nm(v) for v in carried))],
                         brk=lambda: ["pure %s" % res_ok()], has_ret=has_ret, depth=(saved_loop["depth"] + 1 if saved_loop else 1),
                         lc=l_head, lb=l_exit)
        if isinstance(s.target, ast.Tuple):
            if ety == "Pair":
                pat = "(%s)" % ", ".join(nm(self.var(t)) for t in s.target.elts)
                unpack = []
                for t in s.target.elts: self.types[self.var(t)] = "Int"
            elif ety == "IntList" and len(s.target.elts) == 2:
                pat = "x_"
                a, b2 = [self.var(t) for t in s.target.elts]
                unpack = ["let (%s, %s) ← RrPy.unpack2 x_" % (nm(a), nm(b2))]
                self.types[a] = self.types[b2] = "Int"
            else:
                raise Untranslatable("loop target unpacking of %s" % (ety,))
        else:
            pat = nm(self.var(s.target))
            unpack = []
            self.types[self.var(s.target)] = ety
        body = unpack + self.block(list(s.body), self.loop["cont"], l_head)
        ret_ty = "RrPy.Flow %s (%s)" % (lean_ty_p(self.spec.ret), self.tup_ty(returned)) if has_ret else self.tup_ty(returned)
        sig = "def %s %s : List %s → %sPy.R (%s)" % (name, " ".join(params), lean_ty_p(ety),
                                                       "".join(lean_ty_p(t) + " → " for t in ctypes), ret_ty)
        text = sig + "\n  | []%s => pure %s\n  | %s :: rest_%s => do\n" % (
            (", " + ", ".join(nm(v) for v in carried)) if carried else "", res_ok(),
            pat, (", " + ", ".join(("_" if v in tg else nm(v)) for v in carried)) if carried else "")
        text += "\n".join(self.ind(body, 3)) + "\n"
        self.aux.append(text)
        body_types = self.types
        self.types, self.loop = saved_types, saved_loop
        for v in carried:
            self.set_type(v, body_types.get(v, "Int"))
        # ---- the call site
        callt = "%s %s%s" % (call_prefix, lst, "".join(" " + nm(v) for v in carried))
        if has_ret:
            fl = self.fresh()
            after = self.block(rest, k, lo)
            return pre + ["let %s ← %s" % (fl, callt), "match %s with" % fl, "| RrPy.Flow.ret r_ => pure r_",
                          "| RrPy.Flow.next %s => do" % self.tup(returned)] + self.ind(after or ["pure ()"])
        if returned:
            return pre + ["let %s ← %s" % (self.tup(returned), callt)] + self.block(rest, k, lo)
        return pre + ["let _ ← %s" % callt] + self.block(rest, k, lo)

    # ------------------------------------------------------------------ function
    def function(self, fn):
        sp = self.spec
        params = []
        if sp.kind == "info":
            params += ["(rr : RRule.Rule)", "(self : RrPy.II)"]
        elif sp.kind == "rule":
            params += ["(rr : RRule.Rule)"]
        argnames = [a.arg for a in fn.args.args if a.arg != "self"]
        if argnames != [n for n, _ in sp.params]:
            raise Untranslatable("parameters of %s are %s" % (sp.qualname, argnames))
        if fn.args.vararg or fn.args.kwarg or fn.args.kwonlyargs or fn.args.defaults:
            raise Untranslatable("parameter kinds of %s" % sp.qualname)
        params += ["(%s : %s)" % (nm(n), lean_ty(t)) for n, t in sp.params]
        head = []

        def fall_off():
            if sp.ret == "II":
                upd = ", ".join("%s := self_%s" % (a, a) for a in self.written)
                return ["pure { self with %s }" % upd]
            if sp.ret in OPT_OF:
                return ["pure none"]
            raise Untranslatable("falling off the end of %s" % sp.qualname)
        lo = {"self_" + a for a in II_ATTRS} if sp.ret == "II" else set()
        # the slots written anywhere (needed by fall_off before the body is translated)
        for n in ast.walk(fn):
            tgts = []
            if isinstance(n, ast.Assign): tgts = n.targets
            elif isinstance(n, ast.AugAssign): tgts = [n.target]
            for t in tgts:
                for el in (t.elts if isinstance(t, ast.Tuple) else [t]):
                    base = el.value if isinstance(el, ast.Subscript) else el
                    if isinstance(base, ast.Attribute) and is_self(base.value) and sp.kind == "info" and base.attr not in self.written:
                        self.written.append(base.attr)
        if sp.kind == "info":
            used = sorted(set(a[5:] for a in self.reads(fn) if a.startswith("self_")) | set(self.written))
            for a in used:
                if a not in II_ATTRS: raise Untranslatable("self.%s is not a slot of _iterinfo" % a)
            head = ["let self_%s := self.%s" % (a, a) for a in used]
        body = self.block(list(fn.body), fall_off, lo)
        text = "def %s %s : Py.R %s := do\n" % (sp.leanname, " ".join(params), lean_ty_p(sp.ret))
        text += "\n".join(self.ind(head + body)) + "\n"
        return "\n".join(self.aux) + ("\n" if self.aux else "") + text


def section_function(tr, fn):
    """the top-level statement of (cleaned) `__init__` that first mentions the anchor, as a Lean function"""
    sp = tr.spec
    body = clean_init(fn.body)
    def mentions(st):
        for n in ast.walk(st):
            if isinstance(n, ast.Name) and n.id == sp.anchor: return True
            if isinstance(n, ast.Attribute) and is_self(n.value) and n.attr == sp.anchor: return True
        return False
    picked = [st for st in body if mentions(st)]
    if not picked: raise Untranslatable("section %s of rrule.__init__ not found" % sp.anchor)
    st = picked[0]
    outs = [n for n, _ in sp.outs]
    def fall_off():
        return ["pure %s" % tr.tup(outs)]
    lines = tr.block([st], fall_off, set(outs))
    params = " ".join("(%s : %s)" % (nm(n), lean_ty(t)) for n, t in sp.params)
    text = "def %s %s : Py.R %s := do\n" % (sp.leanname, params, lean_ty_p(sp.ret))
    text += "\n".join(tr.ind(lines)) + "\n"
    return "\n".join(tr.aux) + ("\n" if tr.aux else "") + text, hashlib.sha256(ast.dump(st).encode()).hexdigest()[:16]


def whole_init(tr, fn):
    """all statements of the cleaned `__init__` in sequence; returns the normalised rule"""
    sp = tr.spec
    argnames = [a.arg for a in fn.args.args if a.arg != "self"]
    want = [n for n, _ in sp.params if n not in ("fwd", "tz")]
    if argnames != want: raise Untranslatable("parameters of rrule.__init__ are %s" % argnames)
    body = clean_init(fn.body)
    fields = [("freq", "self__freq"), ("interval", "self__interval"), ("wkst", "self__wkst"), ("dtstart", "self__dtstart"),
              ("tz", "self__tzinfo"), ("count", "self__count"), ("untilDT", "self__until"), ("bysetpos", "self__bysetpos"),
              ("bymonth", "self__bymonth"), ("bymonthday", "self__bymonthday"), ("bynmonthday", "self__bynmonthday"),
              ("byyearday", "self__byyearday"), ("byeaster", "self__byeaster"), ("byweekno", "self__byweekno"),
              ("byweekday", "self__byweekday"), ("bynweekday", "self__bynweekday"), ("byhour", "self__byhour"),
              ("byminute", "self__byminute"), ("bysecond", "self__bysecond"), ("timeset", "self__timeset")]
    def fall_off():
        for _, v in fields:
            if v not in tr.types: raise Untranslatable("%s is not assigned by rrule.__init__" % v)
        return ["pure { %s }" % ", ".join("%s := %s" % (f, v) for f, v in fields)]
    lines = tr.block(body, fall_off, {v for _, v in fields})
    params = " ".join("(%s : %s)" % (nm(n), lean_ty(t)) for n, t in sp.params)
    text = "def %s %s : Py.R RRule.Rule := do\n" % (sp.leanname, params)
    text += "\n".join(tr.ind(lines)) + "\n"
    return "\n".join(tr.aux) + ("\n" if tr.aux else "") + text, hashlib.sha256(ast.dump(fn).encode()).hexdigest()[:16]


BYP = lambda n: [(n, "OptIntList")]
INIT_WHOLE = RFn("rrule.__init__[whole]", "init", "sec",
    [("fwd", "Int"), ("tz", "Int"), ("freq", "Int"), ("dtstart", "DT"), ("interval", "Int"), ("wkst", "OptInt"), ("count", "OptInt"), ("until", "OptDT"),
     ("bysetpos", "OptIntList"), ("bymonth", "OptIntList"), ("bymonthday", "OptIntList"), ("byyearday", "OptIntList"), ("byeaster", "OptIntList"),
     ("byweekno", "OptIntList"), ("byweekday", "OptPairList"), ("byhour", "OptIntList"), ("byminute", "OptIntList"), ("bysecond", "OptIntList"),
     ("cache", "Bool")], "Rule",
    {"self__bysetpos": "OptIntList", "self__bymonth": "OptIntList", "self__byyearday": "OptIntList", "self__byeaster": "OptIntList",
     "self__byweekno": "OptIntList", "self__bymonthday": "IntList", "self__bynmonthday": "IntList", "self__byweekday": "OptIntList",
     "self__bynweekday": "OptPairList", "self__byhour": "OptIntList", "self__byminute": "OptIntList", "self__bysecond": "OptIntList",
     "self__timeset": "OptTimeList", "self__wkst": "Int", "bymonth": "OptIntList", "bymonthday": "OptIntList", "byweekday": "OptPairList"})
INIT_SECS = [
    RSec("rrule.__init__[bymonth]", "init_bymonth", "_bymonth", BYP("bymonth"), [("self__bymonth", "OptIntList")]),
    RSec("rrule.__init__[byyearday]", "init_byyearday", "_byyearday", BYP("byyearday"), [("self__byyearday", "OptIntList")]),
    RSec("rrule.__init__[byweekno]", "init_byweekno", "_byweekno", BYP("byweekno"), [("self__byweekno", "OptIntList")]),
    RSec("rrule.__init__[byeaster]", "init_byeaster", "_byeaster", BYP("byeaster"), [("self__byeaster", "OptIntList")]),
    RSec("rrule.__init__[bymonthday]", "init_bymonthday", "_bymonthday", BYP("bymonthday"),
         [("self__bymonthday", "IntList"), ("self__bynmonthday", "IntList")]),
    RSec("rrule.__init__[bysetpos]", "init_bysetpos", "_bysetpos", BYP("bysetpos"), [("self__bysetpos", "OptIntList")]),
    RSec("rrule.__init__[interval]", "init_interval", "interval", [("interval", "Int")], []),
    RSec("rrule.__init__[wkst]", "init_wkst", "wkst", [("fwd", "Int"), ("wkst", "OptInt")], [("self__wkst", "Int")]),
    RSec("rrule.__init__[defaults]", "init_defaults", "byweekno",
         [("freq", "Int"), ("dtstart", "DT"), ("bymonth", "OptIntList"), ("bymonthday", "OptIntList"), ("byyearday", "OptIntList"),
          ("byeaster", "OptIntList"), ("byweekno", "OptIntList"), ("byweekday", "OptPairList")],
         [("bymonth", "OptIntList"), ("bymonthday", "OptIntList"), ("byweekday", "OptPairList")]),
    RSec("rrule.__init__[byweekday]", "init_byweekday", "_byweekday", [("freq", "Int"), ("byweekday", "OptPairList")],
         [("self__byweekday", "OptIntList"), ("self__bynweekday", "OptPairList")]),
    RSec("rrule.__init__[timeset]", "init_timeset", "_timeset",
         [("self__freq", "Int"), ("self__byhour", "OptIntList"), ("self__byminute", "OptIntList"), ("self__bysecond", "OptIntList")],
         [("self__timeset", "OptTimeList")]),
    RSec("rrule.__init__[byhour]", "init_byhour", "_byhour",
         [("freq", "Int"), ("dtstart", "DT"), ("self__interval", "Int"), ("byhour", "OptIntList")], [("self__byhour", "OptIntList")]),
    RSec("rrule.__init__[byminute]", "init_byminute", "_byminute",
         [("freq", "Int"), ("dtstart", "DT"), ("self__interval", "Int"), ("byminute", "OptIntList")], [("self__byminute", "OptIntList")]),
    RSec("rrule.__init__[bysecond]", "init_bysecond", "_bysecond",
         [("freq", "Int"), ("dtstart", "DT"), ("self__interval", "Int"), ("bysecond", "OptIntList")], [("self__bysecond", "OptIntList")]),
]

RR_SPECS = [
    RFn("rrule.__construct_byset", "constructByset", "rule", [("start", "Int"), ("byxxx", "IntList"), ("base", "Int")], "IntSet",
        {"cset": "IntSet"}),
    RFn("rrule.__mod_distance", "modDistance", "rule", [("value", "Int"), ("byxxx", "IntList"), ("base", "Int")], "OptPair"),
    RFn("_iterinfo.rebuild", "rebuild", "info", [("year", "Int"), ("month", "Int")], "II", {"ranges": "ListList"}, split=True),
    RFn("_iterinfo.ydayset", "ydayset", "info", [("year", "Int"), ("month", "Int"), ("day", "Int")], ("IntList", "Int", "Int")),
    RFn("_iterinfo.mdayset", "mdayset", "info", [("year", "Int"), ("month", "Int"), ("day", "Int")], ("Slots", "Int", "Int"),
        {"dset": "Slots"}),
    RFn("_iterinfo.wdayset", "wdayset", "info", [("year", "Int"), ("month", "Int"), ("day", "Int")], ("Slots", "Int", "Int"),
        {"dset": "Slots"}),
    RFn("_iterinfo.ddayset", "ddayset", "info", [("year", "Int"), ("month", "Int"), ("day", "Int")], ("Slots", "Int", "Int"),
        {"dset": "Slots"}),
    RFn("_iterinfo.htimeset", "htimeset", "info", [("hour", "Int"), ("minute", "Int"), ("second", "Int")], "TimeList",
        {"tset": "TimeList"}),
    RFn("_iterinfo.mtimeset", "mtimeset", "info", [("hour", "Int"), ("minute", "Int"), ("second", "Int")], "TimeList",
        {"tset": "TimeList"}),
    RFn("_iterinfo.stimeset", "stimeset", "info", [("hour", "Int"), ("minute", "Int"), ("second", "Int")], "TimeList"),
]


RR_SPECS = RR_SPECS + INIT_SECS + [INIT_WHOLE]


def translate_module(src_root, file, specs):
    tree = ast.parse(open(os.path.join(src_root, file)).read())
    consts = module_consts(tree)
    parts, fps = [], {}
    for sp in specs:
        if sp is INIT_WHOLE:
            fn = find_function(tree, "rrule.__init__")
            text, fp = whole_init(RTr(tree, sp, consts), fn)
            parts.append("/-- translated from `%s:rrule.__init__`: every statement in sequence (without the `_original_rule` bookkeeping, `warn`, the\n    UNTIL / DTSTART awareness check; `Args` conventions: datetimes, 1-tuples, weekday pairs) -/\n%s" % (file, text))
            fps[sp.qualname] = fp
            continue
        if isinstance(sp, RSec):
            fn = find_function(tree, sp.qualname.split("[")[0])
            text, fp = section_function(RTr(tree, sp, consts), fn)
            parts.append("/-- translated from `%s:%s` (one top-level statement; `_original_rule` bookkeeping not included) -/\n%s" % (file, sp.qualname, text))
            fps[sp.qualname] = fp
            continue
        fn = find_function(tree, sp.qualname)
        parts.append("/-- translated from `%s:%s` -/\n%s" % (file, sp.qualname, RTr(tree, sp, consts).function(fn)))
        fps[sp.qualname] = hashlib.sha256(ast.dump(fn).encode()).hexdigest()[:16]
    return "\n".join(parts), fps


if __name__ == "__main__":
    import sys
    text, fps = translate_module(os.path.join(sys.argv[1] if len(sys.argv) > 1 else "/repo", "src", "dateutil"), "rrule.py", [INIT_WHOLE])
    print(text)
