#!/usr/bin/env python3
"""
gen.py — regenerate lean/DateutilVerif/Generated/*.lean from /repo's working tree.

Usage: gen.py [--repo /repo] [--out /verif/lean/DateutilVerif/Generated]
Writes a file only when its content changed (so `lake build` stays a no-op), and
prints one JSON line describing what was produced: per kernel either the AST
fingerprint or the Untranslatable construct (a *broken tie*: the previous file
is left in place and the caller runs the failing-input search).
"""
import sys, os, json, importlib, argparse
HERE = os.path.dirname(os.path.abspath(__file__))
sys.path.insert(0, HERE)
import translate as T

RD_ATTRS = {k: ("Int", k) for k in
            ["years", "months", "days", "leapdays", "hours", "minutes", "seconds", "microseconds"]}
RD_ATTRS.update({k: ("OptInt", k) for k in ["hour", "minute", "second", "microsecond", "year", "month", "day"]})
RD_ATTRS["_has_time"] = ("Int", "hasTime")

KERNELS = {
    "Easter": dict(
        imports=["DateutilVerif.Base.Py"],
        fns=[T.FnSpec("easter.py", "easter", "easter", [("year", "Int"), ("method", "Int")],
                      "Int × Int × Int", can_raise=True)]),
    "RDKernels": dict(
        imports=["DateutilVerif.Base.Py", "DateutilVerif.Model.RDTypes"],
        fns=[T.FnSpec("relativedelta.py", "relativedelta._fix", "fix", [], None,
                      self_attrs=RD_ATTRS, self_type="RD", mutates=True),
             T.FnSpec("relativedelta.py", "relativedelta._set_months", "setMonths", [("months", "Int")], None,
                      self_attrs={k: RD_ATTRS[k] for k in ["months", "years"]}, self_type="RD", mutates=True)]),
    "ParserKernels": dict(
        imports=["DateutilVerif.Base.Py"],
        fns=[T.FnSpec("parser/_parser.py", "parserinfo.convertyear", "convertyear",
                      [("year", "Int"), ("century_specified", "Bool")], "Int",
                      self_attrs={"_century": ("Int", "century"), "_year": ("Int", "year")},
                      self_type="PInfoYear", can_raise=True),
             T.FnSpec("parser/_parser.py", "parser._adjust_ampm", "adjustAmpm",
                      [("hour", "Int"), ("ampm", "Int")], "Int")],
        prelude="structure PInfoYear where\n  century : Int\n  year : Int\n  deriving Repr\n\n"),
}

# "BytesPy" kernels (harness/translate_bytes.py): whole scanner functions of one source file
import translate_bytes as TB
BYTES_KERNELS = {
    "IsoKernels": dict(imports=["DateutilVerif.Model.BytesPy"], file="parser/isoparser.py", specs=TB.ISO_SPECS),
}

# "DtPy" kernels (harness/translate_dt.py): the time-zone lookup functions of tz/tz.py and tz/_common.py
import translate_dt as TD
DT_KERNELS = {
    "TzKernels": dict(imports=["DateutilVerif.Model.DtPy"], groups=TD.TZ_GROUPS),
}
# "ObjPy" kernels (harness/translate_obj.py): tzical / tzstr / tzrange construction and component selection
import translate_obj as TO
DT_KERNELS["TzObjKernels"] = dict(imports=["DateutilVerif.Model.ObjPy", "DateutilVerif.Generated.TzKernels"], groups=TO.OBJ_GROUPS, translate=TO.translate_files)

# "RfcPy" kernel (harness/translate_rfc.py): tzical._parse_rfc (unfolding loop, line loop, whole function)
import translate_rfc as TRFC
DT_KERNELS["TzRfcKernels"] = dict(imports=["DateutilVerif.Model.RfcPy", "DateutilVerif.Model.Factory", "DateutilVerif.Generated.TzObjKernels"], groups=TRFC.RFC_GROUPS, translate=TRFC.translate_files)
# "TzifPy" kernel (harness/translate_tzif.py): tzfile._read_tzfile, the TZif decoder and builder of the zone data (C06)
import translate_tzif as TZF
DT_KERNELS["TzifKernels"] = dict(imports=["DateutilVerif.Model.TzifPy"], groups=None, translate=TZF.translate_files)

# "HelpPy" kernels (harness/translate_tzhelp.py): the fixed zones tzutc / tzoffset (C04, C18) and the module-level PEP 495 helpers (C05)
import translate_tzhelp as TZH
DT_KERNELS["TzFixedKernels"] = dict(imports=["DateutilVerif.Model.HelpPy"], groups=TZH.FIXED, translate=TZH.translate_files)
DT_KERNELS["TzHelpKernels"] = dict(imports=["DateutilVerif.Model.HelpPy"], groups=TZH.HELPERS, translate=TZH.translate_files)

# "LoadPy" kernel (harness/translate_load.py): the load paths tz.tzfile.__init__ and zoneinfo.ZoneInfoFile.__init__ / get (C06)
import translate_load as TLD
DT_KERNELS["TzLoadKernels"] = dict(imports=["DateutilVerif.Model.LoadPy", "DateutilVerif.Generated.TzifKernels"], groups=None, translate=TLD.translate_files)

# "RDPy" kernels (harness/translate_rd.py): the methods of relativedelta, several Lean functions per method
import translate_rd as TR
RD_KERNELS = {
    "RDOps": dict(imports=["DateutilVerif.Model.RDPy", "DateutilVerif.Generated.RDKernels", "DateutilVerif.Generated.WdOps"], file="relativedelta.py",
                  specs=TR.RD_SPECS),
}

# "PPy" kernels (harness/translate_parser.py): `_ymd`, `parserinfo` and the small methods of `parser` in parser/_parser.py
import translate_parser as TP
PARSER_OPS = {
    "ParserOps": dict(imports=["DateutilVerif.Model.ParserPy"], file="parser/_parser.py", specs=TP.PARSER_SPECS),
}

# "RrPy" kernels (harness/translate_rr.py): the integer helpers of rrule.py (C01)
import translate_rr as TRR
RR_KERNELS = {
    "RRuleKernels": dict(imports=["DateutilVerif.Model.RrPy"], file="rrule.py", specs=TRR.RR_SPECS),
}

def write_if_changed(path, text):
    old = open(path).read() if os.path.exists(path) else None
    if old != text:
        os.makedirs(os.path.dirname(path), exist_ok=True)
        open(path, "w").write(text)
        return True
    return False

def gen_kernels(repo, out, report):
    src = os.path.join(repo, "src", "dateutil")
    for mod, cfg in KERNELS.items():
        path = os.path.join(out, mod + ".lean")
        try:
            parts, fps = [], {}
            for sp in cfg["fns"]:
                text, fp = T.translate_function(src, sp)
                parts.append("/-- translated from `%s:%s` -/\n%s" % (sp.file, sp.qualname, text))
                fps[sp.qualname] = fp
            body = "/- GENERATED by harness/gen.py from /repo's working tree — do not edit. -/\n"
            body += "".join("import %s\n" % i for i in cfg["imports"])
            body += "\nnamespace Gen\n\n" + cfg.get("prelude", "") + "\n".join(parts) + "\nend Gen\n"
            changed = write_if_changed(path, body)
            report["kernels"][mod] = {"ok": True, "fingerprints": fps, "changed": changed}
        except (T.Untranslatable, SyntaxError, OSError) as ex:
            report["kernels"][mod] = {"ok": False, "error": "%s: %s" % (type(ex).__name__, ex)}

def gen_bytes_kernels(repo, out, report):
    src = os.path.join(repo, "src", "dateutil")
    for mod, cfg in BYTES_KERNELS.items():
        path = os.path.join(out, mod + ".lean")
        try:
            text, fps = TB.translate_module(src, cfg["file"], cfg["specs"])
            body = "/- GENERATED by harness/gen.py (translate_bytes.py) from /repo's working tree — do not edit. -/\n"
            body += "".join("import %s\n" % i for i in cfg["imports"])
            body += "\nset_option linter.unusedVariables false\n\nnamespace Gen\n\n" + text + "\nend Gen\n"
            changed = write_if_changed(path, body)
            report["kernels"][mod] = {"ok": True, "fingerprints": fps, "changed": changed}
        except (T.Untranslatable, SyntaxError, OSError) as ex:
            report["kernels"][mod] = {"ok": False, "error": "%s: %s" % (type(ex).__name__, ex)}

def gen_dt_kernels(repo, out, report):
    src = os.path.join(repo, "src", "dateutil")
    for mod, cfg in DT_KERNELS.items():
        path = os.path.join(out, mod + ".lean")
        try:
            text, fps = cfg.get("translate", TD.translate_files)(src, cfg["groups"])
            body = "/- GENERATED by harness/gen.py (translate_dt.py) from /repo's working tree — do not edit. -/\n"
            body += "".join("import %s\n" % i for i in cfg["imports"])
            body += "\nset_option linter.unusedVariables false\n\nnamespace Gen\n\n" + text + "\nend Gen\n"
            changed = write_if_changed(path, body)
            report["kernels"][mod] = {"ok": True, "fingerprints": fps, "changed": changed}
        except (T.Untranslatable, SyntaxError, OSError) as ex:
            report["kernels"][mod] = {"ok": False, "error": "%s: %s" % (type(ex).__name__, ex)}

def gen_rd_kernels(repo, out, report):
    src = os.path.join(repo, "src", "dateutil")
    for mod, cfg in RD_KERNELS.items():
        path = os.path.join(out, mod + ".lean")
        try:
            text, fps = TR.translate_module(src, cfg["file"], cfg["specs"])
            body = "/- GENERATED by harness/gen.py (translate_rd.py) from /repo's working tree — do not edit. -/\n"
            body += "".join("import %s\n" % i for i in cfg["imports"])
            body += "\nset_option linter.unusedVariables false\n\nnamespace Gen\n\n" + text + "\nend Gen\n"
            changed = write_if_changed(path, body)
            report["kernels"][mod] = {"ok": True, "fingerprints": fps, "changed": changed}
        except (T.Untranslatable, SyntaxError, OSError) as ex:
            report["kernels"][mod] = {"ok": False, "error": "%s: %s" % (type(ex).__name__, ex)}

def gen_parser_ops(repo, out, report):
    src = os.path.join(repo, "src", "dateutil")
    for mod, cfg in PARSER_OPS.items():
        path = os.path.join(out, mod + ".lean")
        try:
            text, fps = TP.translate_module(src, cfg["file"], cfg["specs"])
            body = "/- GENERATED by harness/gen.py (translate_parser.py) from /repo's working tree — do not edit. -/\n"
            body += "".join("import %s\n" % i for i in cfg["imports"])
            body += "\nset_option linter.unusedVariables false\n\nnamespace Gen.P\n\n" + text + "\nend Gen.P\n"
            changed = write_if_changed(path, body)
            report["kernels"][mod] = {"ok": True, "fingerprints": fps, "changed": changed}
        except (T.Untranslatable, SyntaxError, OSError) as ex:
            report["kernels"][mod] = {"ok": False, "error": "%s: %s" % (type(ex).__name__, ex)}

def gen_rr_kernels(repo, out, report):
    src = os.path.join(repo, "src", "dateutil")
    for mod, cfg in RR_KERNELS.items():
        path = os.path.join(out, mod + ".lean")
        try:
            text, fps = TRR.translate_module(src, cfg["file"], cfg["specs"])
            body = "/- GENERATED by harness/gen.py (translate_rr.py) from /repo's working tree — do not edit. -/\n"
            body += "".join("import %s\n" % i for i in cfg["imports"])
            body += "\nset_option linter.unusedVariables false\n\nnamespace Gen\n\n" + text + "\nend Gen\n"
            changed = write_if_changed(path, body)
            report["kernels"][mod] = {"ok": True, "fingerprints": fps, "changed": changed}
        except (T.Untranslatable, SyntaxError, OSError) as ex:
            report["kernels"][mod] = {"ok": False, "error": "%s: %s" % (type(ex).__name__, ex)}
        except Exception as ex:      # a source shape the translator does not anticipate: a broken tie for C01 only, never a crash of gen.py
            report["kernels"][mod] = {"ok": False, "error": "Untranslatable: translator error %s: %s" % (type(ex).__name__, ex)}

def gen_wd_kernels(repo, out, report):
    """dateutil._common.weekday (+ rrule.weekday.__init__) -> Generated/WdOps.lean (harness/translate_wd.py; C16 / C13)"""
    import translate_wd as TW
    src = os.path.join(repo, "src", "dateutil")
    path = os.path.join(out, "WdOps.lean")
    try:
        text, fps = TW.translate_module(src)
        body = "/- GENERATED by harness/gen.py (translate_wd.py) from /repo's working tree — do not edit. -/\n"
        body += "import DateutilVerif.Model.WdPy\n\nset_option linter.unusedVariables false\n\nnamespace Gen\n\n" + text + "\nend Gen\n"
        changed = write_if_changed(path, body)
        report["kernels"]["WdOps"] = {"ok": True, "fingerprints": fps, "changed": changed}
    except (T.Untranslatable, SyntaxError, OSError) as ex:
        report["kernels"]["WdOps"] = {"ok": False, "error": "%s: %s" % (type(ex).__name__, ex)}

def gen_gettz(repo, out, report):
    """tz.gettz's name-resolution cascade GettzFunc.nocache -> Generated/GettzNocache.lean (harness/translate_gettz.py; C18)"""
    import translate_gettz as TG
    src = os.path.join(repo, "src", "dateutil")
    path = os.path.join(out, "GettzNocache.lean")
    try:
        text, fps = TG.translate_module(src)
        body = "/- GENERATED by harness/gen.py (translate_gettz.py) from /repo's working tree — do not edit. -/\n"
        body += "import DateutilVerif.Model.GzPy\n\nset_option linter.unusedVariables false\n\nnamespace Gen\n\n" + text + "\nend Gen\n"
        changed = write_if_changed(path, body)
        report["kernels"]["GettzNocache"] = {"ok": True, "fingerprints": fps, "changed": changed}
    except (T.Untranslatable, SyntaxError, OSError) as ex:
        report["kernels"]["GettzNocache"] = {"ok": False, "error": "%s: %s" % (type(ex).__name__, ex)}

def gen_factory(repo, out, report):
    """zone-factory method bodies -> statement IR (harness/translate_factory.py; C18)"""
    import translate_factory as TF
    src = os.path.join(repo, "src", "dateutil")
    path = os.path.join(out, "FactoryPrograms.lean")
    try:
        text, fps = TF.translate_all(src)
        body = "/- GENERATED by harness/gen.py (translate_factory.py) from /repo's working tree — do not edit. -/\n"
        body += "import DateutilVerif.Model.FactoryIR\n\nnamespace Gen\nopen Fact.IR\n\n" + text + "\nend Gen\n"
        changed = write_if_changed(path, body)
        report["kernels"]["FactoryPrograms"] = {"ok": True, "fingerprints": fps, "changed": changed}
    except (T.Untranslatable, SyntaxError, OSError) as ex:
        report["kernels"]["FactoryPrograms"] = {"ok": False, "error": "%s: %s" % (type(ex).__name__, ex)}

def gen_replace(repo, out, report):
    """rrule.replace -> statement shape as data (harness/translate_replace.py; C12)"""
    import translate_replace as TRP
    src = os.path.join(repo, "src", "dateutil")
    path = os.path.join(out, "ReplaceProgram.lean")
    try:
        text, fps = TRP.translate(src)
        body = "/- GENERATED by harness/gen.py (translate_replace.py) from /repo's working tree — do not edit. -/\n"
        body += "import DateutilVerif.Model.ReplacePy\n\nnamespace Gen\n\n" + text + "\nend Gen\n"
        changed = write_if_changed(path, body)
        report["kernels"]["ReplaceProgram"] = {"ok": True, "fingerprints": fps, "changed": changed}
    except (T.Untranslatable, SyntaxError, OSError) as ex:
        report["kernels"]["ReplaceProgram"] = {"ok": False, "error": "%s: %s" % (type(ex).__name__, ex)}
def gen_str_kernels(repo, out, report):
    """the text-handling prefix of _rrulestr._parse_rfc and the parameter loop of _parse_date_value (harness/translate_str.py; C13)"""
    import translate_str as TS
    src = os.path.join(repo, "src", "dateutil")
    path = os.path.join(out, "RRuleStrKernels.lean")
    try:
        text, fps = TS.translate_all(src)
        body = "/- GENERATED by harness/gen.py (translate_str.py) from /repo's working tree — do not edit. -/\n"
        body += "import DateutilVerif.Model.StrPy\nimport DateutilVerif.Model.RRuleStr\nimport DateutilVerif.Generated.Tables\n\nset_option linter.unusedVariables false\n\nnamespace Gen\n\n" + text + "\nend Gen\n"
        changed = write_if_changed(path, body)
        report["kernels"]["RRuleStrKernels"] = {"ok": True, "fingerprints": fps, "changed": changed}
    except (T.Untranslatable, SyntaxError, OSError) as ex:
        report["kernels"]["RRuleStrKernels"] = {"ok": False, "error": "%s: %s" % (type(ex).__name__, ex)}

def gen_rrbase(repo, out, report):
    """rrulebase / rruleset of rrule.py (harness/translate_rrbase.py; C10, C11, C12)"""
    import translate_rrbase as TRB
    src = os.path.join(repo, "src", "dateutil")
    for mod, imp, fn in TRB.MODULES:
        path = os.path.join(out, mod + ".lean")
        try:
            text, fps = getattr(TRB, fn)(src)
            body = "/- GENERATED by harness/gen.py (translate_rrbase.py) from /repo's working tree — do not edit. -/\n"
            body += "import %s\n\nnamespace Gen\n\n" % imp + text + "\nend Gen\n"
            changed = write_if_changed(path, body)
            report["kernels"][mod] = {"ok": True, "fingerprints": fps, "changed": changed}
        except (T.Untranslatable, SyntaxError, OSError) as ex:
            report["kernels"][mod] = {"ok": False, "error": "%s: %s" % (type(ex).__name__, ex)}

def gen_tables(repo, out, report):
    """Dump module-level tables from the *imported* working tree."""
    sys.path.insert(0, os.path.join(repo, "src"))
    path = os.path.join(out, "Tables.lean")
    try:
        for m in [k for k in sys.modules if k.startswith("dateutil")]:
            del sys.modules[m]
        rr = importlib.import_module("dateutil.rrule")
        pp = importlib.import_module("dateutil.parser._parser")
        body = "/- GENERATED by harness/gen.py (runtime values of module-level tables) — do not edit. -/\n\nnamespace Gen\n\n"
        for name in ["M366MASK", "M365MASK", "MDAY366MASK", "MDAY365MASK", "NMDAY366MASK", "NMDAY365MASK",
                     "WDAYMASK", "M366RANGE", "M365RANGE"]:
            body += T.lean_int_list(name, list(getattr(rr, name))) + "\n"
        body += T.lean_str_list("FREQNAMES", list(rr.FREQNAMES)) + "\n"
        wm = rr._rrulestr._weekday_map
        body += "def WEEKDAY_MAP : List (String × Int) := [%s]\n\n" % ", ".join('("%s", %d)' % (k, v) for k, v in sorted(wm.items(), key=lambda kv: kv[1]))
        fm = rr._rrulestr._freq_map
        body += "def FREQ_MAP : List (String × Int) := [%s]\n\n" % ", ".join('("%s", %d)' % (k, v) for k, v in sorted(fm.items(), key=lambda kv: kv[1]))
        pi = pp.parserinfo
        def strs(name, xs): return T.lean_str_list(name, list(xs))
        body += strs("PI_JUMP", pi.JUMP) + "\n"
        body += "def PI_WEEKDAYS : List (List String) := [%s]\n\n" % ", ".join("[" + ", ".join('"%s"' % w for w in ws) + "]" for ws in pi.WEEKDAYS)
        body += "def PI_MONTHS : List (List String) := [%s]\n\n" % ", ".join("[" + ", ".join('"%s"' % w for w in ws) + "]" for ws in pi.MONTHS)
        body += "def PI_HMS : List (List String) := [%s]\n\n" % ", ".join("[" + ", ".join('"%s"' % w for w in ws) + "]" for ws in pi.HMS)
        body += "def PI_AMPM : List (List String) := [%s]\n\n" % ", ".join("[" + ", ".join('"%s"' % w for w in ws) + "]" for ws in pi.AMPM)
        body += strs("PI_UTCZONE", pi.UTCZONE) + "\n"
        body += strs("PI_PERTAIN", pi.PERTAIN) + "\n"
        body += "end Gen\n"
        changed = write_if_changed(path, body)
        report["tables"] = {"ok": True, "changed": changed}
    except Exception as ex:   # import failure of the working tree etc.
        report["tables"] = {"ok": False, "error": "%s: %s" % (type(ex).__name__, ex)}

def main():
    ap = argparse.ArgumentParser()
    ap.add_argument("--repo", default="/repo")
    ap.add_argument("--out", default=os.path.join(os.path.dirname(HERE), "lean", "DateutilVerif", "Generated"))
    a = ap.parse_args()
    report = {"kernels": {}, "tables": {}}
    gen_kernels(a.repo, a.out, report)
    gen_bytes_kernels(a.repo, a.out, report)
    gen_dt_kernels(a.repo, a.out, report)
    gen_rd_kernels(a.repo, a.out, report)
    gen_wd_kernels(a.repo, a.out, report)
    gen_gettz(a.repo, a.out, report)
    gen_rr_kernels(a.repo, a.out, report)
    gen_factory(a.repo, a.out, report)
    gen_parser_ops(a.repo, a.out, report)
    gen_replace(a.repo, a.out, report)
    gen_rrbase(a.repo, a.out, report)
    gen_str_kernels(a.repo, a.out, report)
    gen_tables(a.repo, a.out, report)
    print(json.dumps(report))

if __name__ == "__main__":
    main()
