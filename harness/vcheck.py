#!/usr/bin/env python3
"""vcheck.py — CLI: ./check Cxx [--tier quick|thorough] [--replay file]"""
import sys, os, argparse, importlib
HERE = os.path.dirname(os.path.abspath(__file__))
sys.path.insert(0, HERE)
import vlib

def main():
    ap = argparse.ArgumentParser()
    ap.add_argument("prop")
    ap.add_argument("--tier", default=os.environ.get("VERIF_TIER", "quick"), choices=["quick", "thorough"])
    ap.add_argument("--seed", type=int, default=int(os.environ.get("VERIF_SEED", "0") or 0))
    ap.add_argument("--replay")
    a = ap.parse_args()
    mod = importlib.import_module("props." + a.prop.lower())
    try:
        rc = vlib.run_check(mod, a.tier, a.seed, a.replay)
    except Exception:
        import traceback
        traceback.print_exc()
        print("INFRASTRUCTURE-ERROR: harness crashed")
        rc = 2
    sys.exit(rc)

if __name__ == "__main__":
    main()
