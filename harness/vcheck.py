#!/usr/bin/env python3
"""vcheck.py — CLI: ./check Cxx [--tier quick|thorough] [--replay file]"""
import sys, os, argparse, importlib
HERE = os.path.dirname(os.path.abspath(__file__))
sys.path.insert(0, HERE)
import vlib

def main():
    ap = argparse.ArgumentParser()
    ap.add_argument("prop")
    ap.add_argument("--tier", default=os.environ.get("VERIF_TIER", "quick"), choices=["quick", "thorough"])
    def seed_of(x):
        # any string is a seed: integers as they are, anything else through a stable hash
        try:
            return int(x)
        except (TypeError, ValueError):
            import zlib
            return zlib.crc32(str(x).encode())
    ap.add_argument("--seed", type=seed_of, default=seed_of(os.environ.get("VERIF_SEED", "0") or 0))
    ap.add_argument("--replay")
    a = ap.parse_args()
    mod = importlib.import_module("props." + a.prop.lower())
    try:
        rc = vlib.run_check(mod, a.tier, a.seed, a.replay)
    except Exception:
        import traceback
        traceback.print_exc()
        print("INFRASTRUCTURE-ERROR: harness crashed")
        rc = 2
    sys.exit(rc)

if __name__ == "__main__":
    main()
