"""
vlib.py — shared machinery of every check (DESIGN §2.5, §2.6).

A property module `props/cXX.py` defines

    PROP = "Cxx"
    TRUSTED = [...]            # property-specific trusted-base lines
    ASSUMPTIONS = [...]
    RULE = "how cases are generated and what makes one distinct & non-trivial"
    def correspondence(ctx): ...   # model (Lean driver) vs implementation; ctx.mismatch(...)
    def oracle(ctx): ...           # property evaluated directly on the implementation; ctx.violation(...)
    KNOWN = {"<finding id>": predicate(case) -> bool}     # matchers for known_findings.json entries
    def replay(ctx, case): ...     # optional: re-run one recorded case

and `run_check` drives: regenerate → build → audit axioms → correspondence → oracle →
decision → evidence.
"""
import os, sys, json, time, random, subprocess, re, fcntl, hashlib, traceback, importlib

VERIF = os.path.dirname(os.path.dirname(os.path.abspath(__file__)))
LEAN = os.path.join(VERIF, "lean")
REPO = os.environ.get("DATEUTIL_REPO", "/repo")
DRIVER = os.path.join(LEAN, ".lake", "build", "bin", "driver")
ALLOWED_AXIOMS = {"propext", "Classical.choice", "Quot.sound"}
FORBIDDEN = re.compile(r"\b(sorry|admit|native_decide|bv_decide|implemented_by)\b|^\s*axiom\s|\bunsafe\s|maxHeartbeats\s+0\b")

BASE_TRUSTED = [
    "Lean 4.33.0 kernel + lake (theorems re-checked by `lake build` on every run)",
    "axioms allowed under a property theorem: propext, Classical.choice, Quot.sound (parsed from `#print axioms` on every run)",
    "harness/translate.py + gen.py (Python AST -> Lean for the integer kernels; table dumper), validated differentially on every run",
    "correspondence harness = differential testing of the hand-written Lean models against /repo's working tree (bounded by its generators)",
    "CPython datetime/calendar arithmetic is modelled (Base/Calendar.lean), not verified; tied by the base.* correspondence ops",
]


def setup_impl_path():
    """import dateutil from /repo's working tree, never from an installed copy"""
    src = os.path.join(REPO, "src")
    if src in sys.path:
        sys.path.remove(src)
    sys.path.insert(0, src)
    for m in [k for k in sys.modules if k == "dateutil" or k.startswith("dateutil.")]:
        del sys.modules[m]
    os.environ["TZ"] = "UTC"          # whatever the caller's environment says: the checks pin their own process zone
    time.tzset()
    import dateutil
    assert os.path.realpath(dateutil.__file__).startswith(os.path.realpath(src)), dateutil.__file__


def sh(cmd, cwd=None, timeout=3600, input=None):
    p = subprocess.run(cmd, cwd=cwd, stdout=subprocess.PIPE, stderr=subprocess.STDOUT,
                       timeout=timeout, input=input, text=True)
    return p.returncode, p.stdout


def fresh_interpreters(codes, env=None, timeout=60, workers=8):
    """Run each Python source text in `codes` as the whole program of a NEW interpreter importing /repo's working tree
    (module-level lazy imports, memo tables, warn-once sets and other process-wide state start empty), several at a time.
    Returns, per code, (returncode, stdout, stderr-tail); a child that times out gives (None, '', 'timeout')."""
    from concurrent.futures import ThreadPoolExecutor
    e = dict(os.environ)
    e["PYTHONPATH"] = os.path.join(REPO, "src")
    e["TZ"] = "UTC"                   # children get TZ=UTC unless the caller passes another one in `env`
    e["PYTHONDONTWRITEBYTECODE"] = "1"
    e.update(env or {})
    def one(code):
        try:
            p = subprocess.run([sys.executable, "-c", code], stdout=subprocess.PIPE, stderr=subprocess.PIPE, text=True,
                               timeout=timeout, env=e, cwd="/")
            return p.returncode, p.stdout, p.stderr[-400:]
        except subprocess.TimeoutExpired:
            return None, "", "timeout"
    with ThreadPoolExecutor(max_workers=workers) as ex:
        return list(ex.map(one, codes))


class LeanState:
    def __init__(self):
        self.gen_report = {}
        self.build_ok = False
        self.driver_ok = False
        self.build_log = ""
        self.theorems = []       # names listed in Audit/Cxx.lean
        self.axioms = {}         # theorem -> list of axioms
        self.discharged = []     # theorems built + axiom audit passed
        self.broken = []         # human-readable reasons (theorem / file that no longer checks)
        self.forbidden_hits = []
        self.other_notes = []
        self.leanchecker = None


def lean_prepare(prop, tier):
    """regenerate, build, audit.  Serialised by a file lock (one .lake directory)."""
    st = LeanState()
    os.makedirs(os.path.join(LEAN, ".lake"), exist_ok=True)
    with open(os.path.join(LEAN, ".lake", "verif.lock"), "w") as lk:
        fcntl.flock(lk, fcntl.LOCK_EX)
        rc, out = sh([sys.executable, os.path.join(VERIF, "harness", "gen.py"), "--repo", REPO], cwd=VERIF)
        try:
            st.gen_report = json.loads(out.strip().splitlines()[-1])
        except Exception:
            st.gen_report = {"error": out[-2000:]}
        needed = generated_deps(prop)
        if "kernels" not in st.gen_report or rc != 0:
            # the generator itself failed (it reports per-kernel failures in its JSON line and exits 0 otherwise): nothing
            # was regenerated, so no theorem about a Generated module is tied to the current source
            msg = "harness/gen.py failed (rc=%s): %s" % (rc, str(st.gen_report.get("error", out))[-400:].replace("\n", " | "))
            (st.broken if needed else st.other_notes).append(msg)
        for mod, r in (st.gen_report.get("kernels") or {}).items():
            if not r.get("ok"):
                msg = "translator: Generated/%s.lean not regenerated (%s)" % (mod, r.get("error"))
                if mod in needed:
                    st.broken.append(msg)       # a broken tie for THIS property (its theorems import the file)
                else:
                    st.other_notes.append(msg + " — not imported by this property")
        if not (st.gen_report.get("tables") or {}).get("ok", False):
            msg = "table dump failed: %s" % (st.gen_report.get("tables") or st.gen_report)
            (st.broken if "Tables" in needed else st.other_notes).append(msg)
        # driver first (Model/Spec/Generated only), then the property's theorems
        rc, out = sh(["lake", "build", "driver"], cwd=LEAN)
        st.driver_ok = rc == 0 and os.path.exists(DRIVER)
        st.build_log += out
        if not st.driver_ok:
            st.broken.append("driver does not build")
        audit_mod = "DateutilVerif.Audit.%s" % prop
        audit_file = os.path.join(LEAN, "DateutilVerif", "Audit", "%s.lean" % prop)
        st.theorems = re.findall(r"^#print axioms\s+(\S+)", open(audit_file).read(), re.M)
        # the property's own module plus any further module the audit file imports (e.g. Properties/TzGen.lean: the
        # obligations tying the property to functions re-translated from source)
        audit_imports = [m for m in re.findall(r"^import (DateutilVerif\.\S+)", open(audit_file).read(), re.M)
                         if m != "DateutilVerif.Properties.%s" % prop]
        rc, out = sh(["lake", "build", "DateutilVerif.Properties.%s" % prop] + audit_imports, cwd=LEAN)
        st.build_log += out
        st.build_ok = rc == 0
        if not st.build_ok:
            errs = re.findall(r"^error: (\S+\.lean):(\d+):(\d+): (.*)$", out, re.M)
            for f, l, c, msg in errs[:10]:
                st.broken.append("proof no longer checks: %s:%s: %s (%s)" % (f, l, msg[:160], decl_at(f, int(l))))
            if not errs:
                st.broken.append("lake build DateutilVerif.Properties.%s failed" % prop)
        else:
            rc, out = sh(["lake", "env", "lean", audit_file], cwd=LEAN)
            st.build_log += out
            if rc != 0:
                errs = re.findall(r"^(\S+\.lean:\d+:\d+): error: (.*)$", out, re.M)
                st.broken.append("the axiom audit file does not elaborate: %s" % ("; ".join("%s %s" % (a, b[:120]) for a, b in errs[:3]) or "lean rc=%s" % rc))
            for m in re.finditer(r"'([^']+)' depends on axioms: \[([^\]]*)\]", out.replace("\n ", " ").replace("\n", " ")):
                st.axioms[m.group(1)] = [a.strip() for a in m.group(2).split(",") if a.strip()]
            for m in re.finditer(r"'([^']+)' does not depend on any axioms", out):
                st.axioms[m.group(1)] = []
            for t in st.theorems:
                if t not in st.axioms:
                    st.broken.append("theorem %s not found by the axiom audit" % t)
                elif not set(st.axioms[t]) <= ALLOWED_AXIOMS:
                    st.broken.append("theorem %s depends on disallowed axioms %s" % (t, st.axioms[t]))
                else:
                    st.discharged.append(t)
        # forbidden constructs anywhere in the library (comments stripped)
        for root, _, files in os.walk(os.path.join(LEAN, "DateutilVerif")):
            for fn in files:
                if fn.endswith(".lean"):
                    txt = strip_comments(open(os.path.join(root, fn)).read())
                    for i, line in enumerate(txt.splitlines(), 1):
                        if FORBIDDEN.search(line):
                            st.forbidden_hits.append("%s:%d: %s" % (os.path.relpath(os.path.join(root, fn), LEAN), i, line.strip()[:120]))
        if st.forbidden_hits:
            st.broken.append("forbidden construct(s): " + "; ".join(st.forbidden_hits[:5]))
            st.discharged = []
        if tier == "thorough" and st.build_ok and os.environ.get("VERIF_LEANCHECKER", "1") == "1":
            mods = prop_modules(prop)
            t0 = time.time()
            try:
                rc, out = sh(["lake", "env", "leanchecker"] + mods, cwd=LEAN, timeout=1800)
                st.leanchecker = {"rc": rc, "modules": mods, "wall_s": round(time.time() - t0, 1), "tail": out[-300:]}
                if rc != 0:
                    st.broken.append("leanchecker rejected %s" % mods)
            except subprocess.TimeoutExpired:
                st.leanchecker = {"rc": None, "modules": mods, "note": "timeout"}
    return st


def generated_deps(prop):
    """names of the Generated/*.lean modules in the transitive imports of Properties/<prop>.lean and of the driver's
    Ops files (the correspondence runs the driver): a translator failure matters to a property only through these"""
    seen, out = set(), set()
    def walk(mod):
        if mod in seen:
            return
        seen.add(mod)
        f = os.path.join(LEAN, *mod.split(".")) + ".lean"
        if not os.path.exists(f):
            return
        for imp in re.findall(r"^import (DateutilVerif\.\S+)", open(f).read(), re.M):
            if imp.startswith("DateutilVerif.Generated."):
                out.add(imp.split(".")[-1])
            walk(imp)
    walk("DateutilVerif.Properties.%s" % prop)
    walk("DateutilVerif.Audit.%s" % prop)       # obligations about re-translated functions live in modules the audit file imports
    return out


def prop_modules(prop):
    """the property's module and the project modules it imports directly (for leanchecker)"""
    f = os.path.join(LEAN, "DateutilVerif", "Properties", "%s.lean" % prop)
    mods = ["DateutilVerif.Properties.%s" % prop]
    mods += re.findall(r"^import (DateutilVerif\.\S+)", open(f).read(), re.M)
    return mods


def strip_comments(txt):
    txt = re.sub(r"/-.*?-/", lambda m: "\n" * m.group(0).count("\n"), txt, flags=re.S)
    return re.sub(r"--.*", "", txt)


def decl_at(relfile, line):
    try:
        lines = open(os.path.join(LEAN, relfile)).read().splitlines()
        for i in range(min(line, len(lines)) - 1, -1, -1):
            m = re.match(r"\s*(?:private\s+|protected\s+)?(theorem|lemma|def|example|instance)\s+(\S+)?", lines[i])
            if m:
                return "%s %s" % (m.group(1), m.group(2) or "")
    except Exception:
        pass
    return "?"


class DriverError(Exception):
    pass


def driver_query(lines, timeout=1800):
    """send request lines to the compiled Lean driver, return the response lines"""
    if not lines:
        return []
    if not os.path.exists(DRIVER):
        raise DriverError("driver missing")
    p = subprocess.run([DRIVER], input="\n".join(lines) + "\n", stdout=subprocess.PIPE,
                       stderr=subprocess.PIPE, text=True, timeout=timeout)
    out = p.stdout.splitlines()
    if p.returncode != 0 or len(out) != len(lines):
        raise DriverError("driver rc=%s, %d responses for %d requests; stderr=%s"
                          % (p.returncode, len(out), len(lines), p.stderr[-500:]))
    return out


_KINDS = ["ParserError", "InvalidOperation", "UnicodeError", "OverflowError", "ZeroDivisionError", "IndexError", "KeyError",
          "StopIteration", "AssertionError", "AttributeError", "TypeError", "ValueError"]

def exc_kind(ex):
    """canonical exception kind: the nearest class of the model's PyErr enum in the MRO"""
    names = [c.__name__ for c in type(ex).__mro__]
    for n in names:
        if n in _KINDS:
            return n
    if "DecimalException" in names or "ArithmeticError" in names:
        return "InvalidOperation" if "InvalidOperation" in names else names[0]
    return names[0]


def hexs(s):
    b = s.encode("utf-8") if isinstance(s, str) else bytes(s)
    return b.hex() if b else "."


def ilist(xs):
    return "[" + ",".join(str(int(x)) for x in xs) + "]"


def oint(x):
    return "-" if x is None else str(int(x))


class Ctx:
    def __init__(self, prop, tier, seed):
        self.prop = prop
        self.tier = tier
        self.seed = seed
        self.rng = random.Random(seed)
        self.escalated = False
        self.source_changed = False
        self.lean = None
        self.evaluations = 0
        self.nontrivial = set()
        self.hist = {}
        self.samples = []
        self.mismatches = []      # correspondence differences
        self.violations = []      # property failures on the implementation
        self.traces = 0
        self.notes = []
        self.t0 = time.time()
        self.deadline = None

    # ---- budgets ----
    def budget(self, quick, thorough):
        if self.tier == "thorough" or self.escalated:
            return thorough
        if self.source_changed:
            # an anchored source file differs from the committed fingerprint: widen the generators
            return min(thorough, quick * 4)
        return quick

    def subrng(self, tag):
        return random.Random("%s/%s/%s" % (self.seed, self.prop, tag))

    # ---- accounting ----
    def count(self, key, n=1):
        self.hist[key] = self.hist.get(key, 0) + n

    def case(self, key=None, nontrivial=True):
        """one evaluated case; `key` (hashable / repr-able) identifies it for distinct counting"""
        self.evaluations += 1
        if nontrivial and key is not None:
            self.nontrivial.add(hashlib.blake2b(repr(key).encode(), digest_size=8).digest())

    def sample(self, obj, cap=12):
        if len(self.samples) < cap:
            self.samples.append(obj)

    def driver(self, lines):
        self.count("driver_requests", len(lines))
        return driver_query(lines)

    # ---- findings ----
    def mismatch(self, op, inp, impl, model):
        self.count("mismatch")
        if len(self.mismatches) < 50:
            self.mismatches.append({"op": op, "input": inp, "impl": impl, "model": model})

    def violation(self, what, case, detail=None):
        """the property fails on the implementation for `case` (JSON-able).  Instances of a LISTED finding are kept up to
        25 per finding (the rest are only counted), so that they can never crowd a different failure out of the buffer;
        failures no matcher claims are kept up to 200."""
        self.count("oracle_failures")
        v = {"what": what, "case": case, "detail": detail}
        kid = None
        for k, pred in getattr(self, "known_matchers", {}).items():
            try:
                if pred(v):
                    kid = k
                    break
            except Exception:
                pass
        if kid is not None:
            n = self.hist.get("known_instances_" + kid, 0)
            self.count("known_instances_" + kid)
            if n < 25:
                self.violations.append(v)
            return
        self._unknown_kept = getattr(self, "_unknown_kept", 0)
        if self._unknown_kept < 200:
            self._unknown_kept += 1
            self.violations.append(v)

    def unknown_violations(self):
        """number of recorded violations that no known-finding matcher of this property claims — the count an early stop of
        the failing-input search must use (instances of a listed finding are not the failing input being looked for)"""
        ms = list(getattr(self, "known_matchers", {}).values())
        n = 0
        for v in self.violations:
            hit = False
            for pred in ms:
                try:
                    if pred(v):
                        hit = True
                        break
                except Exception:
                    pass
            n += 0 if hit else 1
        return n

    def note(self, s):
        self.notes.append(s)


def ast_fingerprint(path):
    """comment- and layout-insensitive fingerprint of a source file: hash of its token stream
    (stable across Python versions, unlike ast.dump)"""
    import tokenize
    try:
        h = hashlib.sha256()
        with open(path, "rb") as f:
            for tok in tokenize.tokenize(f.readline):
                if tok.type in (tokenize.COMMENT, tokenize.NL, tokenize.NEWLINE, tokenize.ENCODING, tokenize.ENDMARKER):
                    continue
                if tok.type in (tokenize.INDENT, tokenize.DEDENT):
                    h.update(b"\x00%d" % tok.type)
                else:
                    h.update(b"\x01" + tok.string.encode("utf-8", "replace"))
        return h.hexdigest()[:16]
    except Exception as ex:
        return "unparsable:%s" % type(ex).__name__


def changed_anchors(prop):
    """anchored files (properties.jsonl) whose comment/whitespace-insensitive AST hash differs from
    harness/fingerprints.json (committed; written by tools/update_fingerprints.py at development time)"""
    try:
        fps = json.load(open(os.path.join(VERIF, "harness", "fingerprints.json")))
        anchors = None
        for l in open(os.path.join(VERIF, "properties.jsonl")):
            d = json.loads(l)
            if d["id"] == prop:
                anchors = d["anchors"]["files"]
        out = []
        for f in anchors or []:
            if fps.get(f) != ast_fingerprint(os.path.join(REPO, f)):
                out.append(f)
        return out
    except Exception:
        return []


def is_infra(ex):
    """time-outs and failures of the harness's own helper processes are infrastructure errors (exit 2), never violations"""
    return (type(ex).__name__ in ("InfraError", "TimeoutExpired") or getattr(ex, "infrastructure", False)
            or "fresh-process reference failed" in str(ex))


def load_known(prop):
    path = os.path.join(VERIF, "known_findings.json")
    if not os.path.exists(path):
        return []
    data = json.load(open(path))
    return [e for e in data.get("findings", []) if e.get("property") == prop and e.get("status") == "known"]


def write_replay(prop, seed, payload, tag=""):
    os.makedirs(os.path.join(VERIF, "replays"), exist_ok=True)
    path = os.path.join("replays", "%s-%s%s.json" % (prop, seed, tag))
    with open(os.path.join(VERIF, path), "w") as f:
        json.dump(payload, f, indent=1, default=str)
    return path


def run_check(mod, tier, seed, replay=None):
    prop = mod.PROP
    ctx = Ctx(prop, tier, seed)
    ctx.known_matchers = getattr(mod, "KNOWN", {})
    setup_impl_path()
    if replay:
        payload = json.load(open(replay if os.path.isabs(replay) else os.path.join(VERIF, replay)))
        ctx.lean = lean_prepare(prop, "quick")
        ok = mod.replay(ctx, payload)
        print("REPLAY %s: %s" % (replay, "property holds on this input now" if ok else "still failing"))
        return 0 if ok else 1
    ctx.lean = lean_prepare(prop, tier)
    changed = changed_anchors(prop)
    if changed:
        ctx.source_changed = True
        ctx.note("anchored source differs from the committed AST fingerprint (%s): generator budgets widened x4" % ", ".join(changed))
    if ctx.lean.broken:
        ctx.escalated = True
    exit_code = 0
    infra_error = None
    def crashed(stage, ex):
        # The harness itself failed while handling what the implementation returned (a value of an unexpected shape or
        # type, e.g. a bare datetime where a pair is documented).  On a tree where the checks pass this does not happen,
        # so it is treated like a correspondence that no longer checks: escalate, keep searching for a failing input.
        import traceback
        tb = traceback.format_exc().strip().splitlines()
        ctx.mismatches.append({"op": "%s-crashed" % stage, "input": " | ".join(l.strip() for l in tb[-6:])[:900],
                               "impl": "%s: %s" % (type(ex).__name__, str(ex)[:300]), "model": "-"})
        ctx.note("%s stopped by %s: %s (recorded as a correspondence that no longer checks)" % (stage, type(ex).__name__, str(ex)[:200]))
        ctx.escalated = True
    try:
        if ctx.lean.driver_ok:
            try:
                mod.correspondence(ctx)
            except (DriverError, subprocess.TimeoutExpired):
                raise
            except Exception as ex:
                if is_infra(ex):
                    raise DriverError("%s: %s" % (type(ex).__name__, ex))
                crashed("correspondence", ex)
        else:
            ctx.note("driver unavailable: correspondence skipped")
        if ctx.mismatches:
            ctx.escalated = True
        try:
            mod.oracle(ctx)
        except (DriverError, subprocess.TimeoutExpired):
            raise
        except Exception as ex:
            if is_infra(ex):
                raise DriverError("%s: %s" % (type(ex).__name__, ex))
            crashed("oracle", ex)
    except (DriverError, subprocess.TimeoutExpired) as ex:
        infra_error = "%s: %s" % (type(ex).__name__, ex)
    # ---- decision ----
    known = load_known(prop)
    matchers = getattr(mod, "KNOWN", {})
    unknown_v, known_hit = [], {}
    for v in ctx.violations:
        hit = None
        for e in known:
            pred = matchers.get(e["id"])
            try:
                if pred and pred(v):
                    hit = e
                    break
            except Exception:
                pass
        if hit:
            known_hit.setdefault(hit["id"], (hit, v))
        else:
            unknown_v.append(v)
    lines = []
    for kid, (e, v) in sorted(known_hit.items()):
        lines.append("KNOWN-FINDING: property=%s %s [%s] e.g. %s" % (prop, e["what"], kid, json.dumps(v["case"], default=str)[:200]))
    if unknown_v:
        path = write_replay(prop, seed, {
            "property": prop, "seed": seed, "tier": tier, "kind": "failing-input",
            "violation": unknown_v[0], "more": unknown_v[1:10],
            "broken_obligations": ctx.lean.broken, "mismatches": ctx.mismatches[:10],
            "replay_cmd": "./check %s --replay <this file>" % prop})
        lines.append("VIOLATION property=%s replay=%s" % (prop, path))
        exit_code = 1
    elif ctx.lean.broken or ctx.mismatches:
        path = write_replay(prop, seed, {
            "property": prop, "seed": seed, "tier": tier, "kind": "no-failing-input-found",
            "broken_obligations": ctx.lean.broken,
            "correspondence_mismatches": ctx.mismatches[:20],
            "note": "a theorem or the model/implementation correspondence no longer checks; the "
                    "failing-input search over the implementation (thorough budget) found no input on "
                    "which the property fails, so the property is no longer shown to hold",
            "build_log_tail": ctx.lean.build_log[-3000:]}, tag="-nofail")
        lines.append("VIOLATION property=%s replay=%s no-failing-input-found" % (prop, path))
        exit_code = 1
    if infra_error and exit_code == 0:
        exit_code = 2
    write_evidence(mod, ctx, len(unknown_v) + (1 if exit_code == 1 and not unknown_v else 0), known_hit, infra_error)
    for l in lines:
        print(l)
    if infra_error:
        print("INFRASTRUCTURE-ERROR: %s" % infra_error)
    print("%s tier=%s seed=%s: obligations=%d discharged=%d evaluations=%d distinct_nontrivial=%d mismatches=%d "
          "oracle_failures=%d (known classes hit: %d) wall=%.1fs -> exit %d"
          % (prop, tier, seed, len(ctx.lean.theorems), len(ctx.lean.discharged), ctx.evaluations,
             len(ctx.nontrivial), len(ctx.mismatches), len(ctx.violations), len(known_hit),
             time.time() - ctx.t0, exit_code))
    return exit_code


def write_evidence(mod, ctx, nviol, known_hit, infra_error):
    st = ctx.lean
    cov = {
        "obligations": len(st.theorems),
        "discharged": len(st.discharged),
        "checker_cmd": "cd lean && lake build DateutilVerif.Properties.%s driver && lake env lean DateutilVerif/Audit/%s.lean" % (ctx.prop, ctx.prop),
        "trusted_base": BASE_TRUSTED + list(getattr(mod, "TRUSTED", [])),
        "theorems": [{"name": t, "axioms": st.axioms.get(t)} for t in st.theorems],
        "broken_obligations": st.broken,
        "generated": st.gen_report,
        "leanchecker": st.leanchecker,
        "evaluations": ctx.evaluations,
        "distinct_nontrivial": len(ctx.nontrivial),
        "rule": getattr(mod, "RULE", ""),
        "samples": ctx.samples,
        "traces_validated_against_impl": ctx.traces,
        "disagreements_checked": len(ctx.mismatches),
        "histogram": dict(sorted(ctx.hist.items())),
        "known_findings_hit": sorted(known_hit.keys()),
        "escalated_to_thorough_budget": ctx.escalated,
        "anchored_source_changed": ctx.source_changed,
        "notes": ctx.notes + st.other_notes,
    }
    if infra_error:
        cov["infrastructure_error"] = infra_error
    if not st.discharged:
        # nothing was discharged (the proofs did not build on this tree): the proof-level keys would not validate
        # (discharged must be >= 1), so report the run through the generic counts instead and say so
        cov.pop("discharged")
        cov["discharged_obligations"] = 0
        cov["explanation"] = "no proof obligation could be discharged on this tree (see broken_obligations); the counts describe the failing-input search"

    ev = {
        "property_id": ctx.prop, "tier": ctx.tier, "seed": ctx.seed, "level": "proof",
        "coverage": cov,
        "assumptions": list(getattr(mod, "ASSUMPTIONS", [])),
        "wall_s": round(time.time() - ctx.t0, 2),
        "violations": nviol,
    }
    os.makedirs(os.path.join(VERIF, "evidence"), exist_ok=True)
    with open(os.path.join(VERIF, "evidence", "%s.json" % ctx.prop), "w") as f:
        json.dump(ev, f, indent=1, default=str)
