#!/usr/bin/env python3
"""
translate_tzif.py — Python AST -> Lean 4 for "TzifPy": `tzfile._read_tzfile` (tz/tz.py), the function that decodes a TZif
stream and builds the `_tzfile` data object (struct unpacking of the header and the tables, the `_ttinfo` objects, the
replacement of type indices by objects, ttinfo_std/dst/before, the dstoffset loop that MUTATES the shared `_ttinfo`
objects, trans_list and the two wall-clock lists).

Output (Generated/TzifKernels.lean, namespace Gen): one definition per `for` statement — `readTzfile_loop<k>_body`
(one iteration: loop variable and carried names ↦ carried names) and `readTzfile_loop<k>` (the whole statement incl. its
`else` clause) — and `readTzfile : List UInt8 → Py.R TzifPy.Out`, in do-notation of the exception monad without mutable
variables (every assignment is a shadowing `let`; an `if` returns the names it assigns; `break` is a carried flag).

Values: Int, OptInt (int or None), Bool, Bytes / Str (`List UInt8`; ASCII), IntList, Rec3 / Rec3List (the `>lbB` records),
File (TzifPy.File, BytesIO semantics), Ref / OptRef / RefList (`_ttinfo` objects by reference into the heap `heap`, which
is threaded like a variable: `_ttinfo()` allocates, `tti.x = e` updates, `tti.x` reads), WallPair, TD (timedelta in seconds).
The attributes of `out` are variables `out_<attr>`.  Anything else raises Untranslatable(<construct>).
"""
import ast, os, re, hashlib
from translate import Untranslatable, find_function

LEAN_TY = {"Int": "Int", "TD": "Int", "OptInt": "Option Int", "Bool": "Bool", "Bytes": "List UInt8", "Str": "List UInt8",
           "IntList": "List Int", "Rec3": "(Int × Int × Int)", "Rec3List": "List (Int × Int × Int)", "File": "TzifPy.File",
           "Ref": "TzifPy.Ref", "OptRef": "Option TzifPy.Ref", "RefList": "List TzifPy.Ref", "Heap": "TzifPy.Heap",
           "WallPair": "(List Int × List Int)"}
DEFAULT = {"Int": "0", "TD": "0", "OptInt": "none", "Bool": "false", "Bytes": "[]", "Str": "[]", "IntList": "[]",
           "Rec3List": "[]", "OptRef": "none", "RefList": "[]", "WallPair": "([], [])", "Ref": "0"}
ELEM = {"IntList": "Int", "Rec3List": "Rec3", "RefList": "Ref"}
LIST_OF = {v: k for k, v in ELEM.items()}
# declared types: empty-list / None literals are typed by the name they are bound to
DECL = {"ttinfo": "Rec3List", "out_trans_list_utc": "IntList", "out_trans_idx": "IntList", "out_ttinfo_list": "RefList",
        "out_trans_list": "IntList", "trans_list_wall": "WallPair", "out_trans_list_wall": "WallPair",
        "out_ttinfo_std": "OptRef", "out_ttinfo_dst": "OptRef", "out_ttinfo_before": "OptRef", "out_ttinfo_first": "OptRef",
        "lastdst": "OptInt", "lastoffset": "OptInt", "lastdstoffset": "OptInt", "lastbaseoffset": "OptInt"}
TT_FIELDS = {"offset": "Int", "delta": "TD", "isdst": "Int", "abbr": "Str", "isstd": "Bool", "isgmt": "Bool", "dstoffset": "TD"}
OUT_FIELDS = ["trans_list_utc", "trans_idx", "ttinfo_list", "ttinfo_std", "ttinfo_dst", "ttinfo_before", "ttinfo_first",
              "trans_list", "trans_list_wall"]
OUT_TYPES = {"trans_list_utc": "IntList", "trans_idx": "RefList", "ttinfo_list": "RefList", "ttinfo_std": "OptRef",
             "ttinfo_dst": "OptRef", "ttinfo_before": "OptRef", "ttinfo_first": "OptRef", "trans_list": "IntList",
             "trans_list_wall": "WallPair"}
ERR = {"ValueError": "ValueError", "IndexError": "IndexError", "TypeError": "TypeError"}


def has(node_list, kinds):
    return any(isinstance(n, kinds) for s in node_list for n in ast.walk(s))


def escapes(node_list):
    """a `return` / `raise` anywhere, or a `break` that belongs to an enclosing loop"""
    def walk(n, in_loop):
        if isinstance(n, (ast.Return, ast.Raise)): return True
        if isinstance(n, ast.Break) and not in_loop: return True
        inl = in_loop or isinstance(n, (ast.For, ast.While))
        return any(walk(c, inl) for c in ast.iter_child_nodes(n))
    return any(walk(s, False) for s in node_list)


class Tr:
    def __init__(self, tree, fn):
        self.tree, self.fn = tree, fn
        self.env = {}
        self.tmp = 0
        self.loops = []          # emitted loop definitions (text)
        self.nloop = 0
        self.nif = 0
        self.loop = None         # (carried names, has_break) while translating a loop body
        self.check_supported_offset()

    # ------------------------------------------------------------------ helpers
    def fresh(self):
        self.tmp += 1
        return "t%d" % self.tmp

    def check_supported_offset(self):
        """`_get_supported_offset` as defined for the running interpreter (>= 3.6) must be the identity"""
        for node in self.tree.body:
            if isinstance(node, ast.If) and "version_info" in ast.dump(node.test):
                for d in node.body:
                    if isinstance(d, ast.FunctionDef) and d.name == "_get_supported_offset":
                        body = [s for s in d.body if not (isinstance(s, ast.Expr) and isinstance(s.value, ast.Constant))]
                        if len(d.args.args) == 1 and len(body) == 1 and isinstance(body[0], ast.Return) \
                                and isinstance(body[0].value, ast.Name) and body[0].value.id == d.args.args[0].arg:
                            return
                        raise Untranslatable("_get_supported_offset is not the identity")
        raise Untranslatable("_get_supported_offset not found under the version test")

    def out_attr(self, e):
        return isinstance(e, ast.Attribute) and isinstance(e.value, ast.Name) and e.value.id == "out"

    def tup(self, names):
        return names[0] if len(names) == 1 else "(" + ", ".join(names) + ")"

    def tup_ty(self, names, env=None):
        env = env or self.env
        tys = [LEAN_TY[env[n]] for n in names]
        return tys[0] if len(tys) == 1 else "(" + " × ".join(tys) + ")"

    def coerce(self, binds, t, ty, want):
        if ty == want or {ty, want} == {"Bytes", "Str"} and False:
            return binds, t
        if ty == "None" and want in ("OptInt", "OptRef"): return binds, "none"
        if ty == "Int" and want == "OptInt": return binds, "(some %s)" % t
        if ty == "Ref" and want == "OptRef": return binds, "(some %s)" % t
        if ty == "OptInt" and want == "Int":
            n = self.fresh()
            return binds + [(n, "←", "TzifPy.needInt %s" % t)], n
        if ty == "EmptyList" and want in ELEM: return binds, "[]"
        if ty == "StrLit" and want == "Str":
            return binds, "[" + ", ".join(str(b) for b in t.encode("ascii")) + "]"
        raise Untranslatable("a value of type %s where %s is expected" % (ty, want))

    # ------------------------------------------------------------------ expressions: (binds, term, type)
    def expr(self, e):
        if isinstance(e, ast.Constant):
            if e.value is None: return [], "none", "None"
            if e.value is True or e.value is False: return [], str(e.value).lower(), "Bool"
            if isinstance(e.value, int): return [], ("(%d)" % e.value if e.value < 0 else str(e.value)), "Int"
            if isinstance(e.value, str): return [], e.value, "StrLit"
            raise Untranslatable("constant %r" % (e.value,))
        if isinstance(e, ast.UnaryOp) and isinstance(e.op, ast.USub):
            b, t, ty = self.expr(e.operand)
            if ty != "Int": raise Untranslatable("unary minus on %s" % ty)
            return b, "(-%s)" % t, "Int"
        if isinstance(e, ast.Name):
            if e.id not in self.env: raise Untranslatable("name %s read before it is bound" % e.id)
            return [], e.id, self.env[e.id]
        if isinstance(e, ast.List) and not e.elts:
            return [], "[]", "EmptyList"
        if isinstance(e, ast.Tuple) and len(e.elts) == 2:
            b1, t1, y1 = self.expr(e.elts[0]); b2, t2, y2 = self.expr(e.elts[1])
            if {y1, y2} <= {"IntList", "EmptyList"}:
                return b1 + b2, "(%s, %s)" % (t1, t2), "WallPair"
            raise Untranslatable("tuple of %s, %s" % (y1, y2))
        if self.out_attr(e):
            v = "out_" + e.attr
            if v not in self.env: raise Untranslatable("out.%s read before it is assigned" % e.attr)
            return [], v, self.env[v]
        if isinstance(e, ast.Attribute):
            b, t, ty = self.expr(e.value)
            if ty == "OptRef":
                n = self.fresh()
                b, t, ty = b + [(n, "←", "TzifPy.need %s" % t)], n, "Ref"
            if ty == "Ref" and e.attr in TT_FIELDS:
                return b, "(TzifPy.hget heap %s).%s" % (t, e.attr), TT_FIELDS[e.attr]
            raise Untranslatable("attribute .%s of %s" % (e.attr, ty))
        if isinstance(e, ast.BinOp):
            if isinstance(e.op, (ast.Add, ast.Sub, ast.Mult)):
                bl, l, tl = self.expr(e.left); br, r, tr = self.expr(e.right)
                bl, l = self.coerce(bl, l, tl, "Int"); br, r = self.coerce(br, r, tr, "Int")
                return bl + br, "(%s %s %s)" % (l, {ast.Add: "+", ast.Sub: "-", ast.Mult: "*"}[type(e.op)], r), "Int"
            raise Untranslatable("operator %s" % type(e.op).__name__)
        if isinstance(e, ast.Subscript):
            return self.subscript(e)
        if isinstance(e, ast.Call):
            return self.call(e)
        if isinstance(e, ast.ListComp):
            if len(e.generators) != 1 or e.generators[0].ifs or not isinstance(e.generators[0].target, ast.Name):
                raise Untranslatable("comprehension shape")
            g = e.generators[0]
            bi, it, ti = self.expr(g.iter)
            if ti not in ELEM: raise Untranslatable("comprehension over %s" % ti)
            saved = dict(self.env)
            self.env[g.target.id] = ELEM[ti]
            be, te, tye = self.expr(e.elt)
            self.env = saved
            if tye not in LIST_OF: raise Untranslatable("comprehension of %s" % tye)
            n = self.fresh()
            body = " ".join("let %s %s %s;" % (p, k, r) for p, k, r in be)
            return bi + [(n, "←", "List.mapM (fun %s => do %s pure %s) %s" % (g.target.id, body, te, it))], n, LIST_OF[tye]
        if isinstance(e, (ast.BoolOp, ast.Compare)) or (isinstance(e, ast.UnaryOp) and isinstance(e.op, ast.Not)):
            return self.boolval(e)
        raise Untranslatable("expression %s" % type(e).__name__)

    def subscript(self, e):
        sl = e.slice
        if isinstance(sl, ast.Slice):
            # s[i:s.find('\x00', i)]
            if isinstance(e.value, ast.Name) and sl.step is None and isinstance(sl.lower, ast.Name) \
                    and isinstance(sl.upper, ast.Call) and isinstance(sl.upper.func, ast.Attribute) \
                    and sl.upper.func.attr == "find" and isinstance(sl.upper.func.value, ast.Name) \
                    and sl.upper.func.value.id == e.value.id and len(sl.upper.args) == 2 and not sl.upper.keywords \
                    and isinstance(sl.upper.args[0], ast.Constant) and sl.upper.args[0].value == "\x00" \
                    and isinstance(sl.upper.args[1], ast.Name) and sl.upper.args[1].id == sl.lower.id:
                b, t, ty = self.expr(e.value)
                bi, i, ti = self.expr(sl.lower)
                if ty == "Str" and ti == "Int":
                    return b + bi, "(TzifPy.sliceToFindNul %s %s)" % (t, i), "Str"
            raise Untranslatable("slice")
        b, t, ty = self.expr(e.value)
        if ty == "WallPair" and isinstance(sl, ast.Constant) and sl.value in (0, 1):
            return b, "%s.%d" % (t, sl.value + 1), "IntList"
        bi, i, ti = self.expr(sl)
        bi, i = self.coerce(bi, i, ti, "Int")
        if ty in ELEM:
            n = self.fresh()
            return b + bi + [(n, "←", "TzifPy.lget %s %s" % (t, i))], n, ELEM[ty]
        raise Untranslatable("subscript of %s" % ty)

    FMT = re.compile(r"^>(%d|\d+)([lbB])$")

    def call(self, e):
        f = e.func
        if isinstance(f, ast.Name):
            if f.id in ("list", "tuple") and len(e.args) == 1 and not e.keywords:
                b, t, ty = self.expr(e.args[0])
                if ty in ELEM: return b, t, ty
                raise Untranslatable("%s(%s)" % (f.id, ty))
            if f.id == "min" and len(e.args) == 2 and not e.keywords:
                b1, t1, y1 = self.expr(e.args[0]); b2, t2, y2 = self.expr(e.args[1])
                if y1 == y2 == "Int": return b1 + b2, "(min %s %s)" % (t1, t2), "Int"
            if f.id == "_get_supported_offset" and len(e.args) == 1 and not e.keywords:
                b, t, ty = self.expr(e.args[0])
                if ty == "Int": return b, t, "Int"             # the identity (checked in check_supported_offset)
            if f.id == "_ttinfo" and not e.args and not e.keywords:
                n = self.fresh()
                return [("(%s, heap)" % n, ":=", "TzifPy.hnew heap")], n, "NewRef"
            raise Untranslatable("call of %s" % f.id)
        if isinstance(f, ast.Attribute):
            v = f.value
            if isinstance(v, ast.Name) and v.id == "fileobj" and f.attr == "read" and len(e.args) == 1 and not e.keywords:
                b, t, ty = self.expr(e.args[0])
                if ty != "Int": raise Untranslatable("read(%s)" % ty)
                n = self.fresh()
                return b + [("(%s, fileobj)" % n, ":=", "fileobj.read %s" % t)], n, "Bytes"
            if f.attr == "decode" and not e.args and not e.keywords:
                b, t, ty = self.expr(v)
                if ty != "Bytes": raise Untranslatable("decode of %s" % ty)
                n = self.fresh()
                return b + [(n, "←", "TzifPy.decodeStr %s" % t)], n, "Str"
            if isinstance(v, ast.Name) and v.id == "struct" and f.attr == "unpack" and len(e.args) == 2 and not e.keywords:
                fm = e.args[0]
                binds, cnt = [], None
                if isinstance(fm, ast.Constant) and isinstance(fm.value, str):
                    text = fm.value
                elif isinstance(fm, ast.BinOp) and isinstance(fm.op, ast.Mod) and isinstance(fm.left, ast.Constant) \
                        and isinstance(fm.left.value, str):
                    text = fm.left.value
                    binds, cnt, tc = self.expr(fm.right)
                    if tc != "Int": raise Untranslatable("struct format count of type %s" % tc)
                else:
                    raise Untranslatable("struct format expression")
                bd, d, td = self.expr(e.args[1])
                if td != "Bytes": raise Untranslatable("unpack of %s" % td)
                n = self.fresh()
                if text == ">lbB" and cnt is None:
                    return binds + bd + [(n, "←", "TzifPy.unpackLbB %s" % d)], n, "Rec3"
                m = self.FMT.match(text)
                if not m or (m.group(1) == "%d") != (cnt is not None):
                    raise Untranslatable("struct format %r" % text)
                if cnt is None: cnt = m.group(1)
                prim = {"l": "unpackL", "B": "unpackB", "b": "unpackSB"}[m.group(2)]
                return binds + bd + [(n, "←", "TzifPy.%s %s %s" % (prim, cnt, d))], n, "IntList"
            if isinstance(v, ast.Name) and v.id == "datetime" and f.attr == "timedelta":
                if len(e.args) == 1 and not e.keywords and isinstance(e.args[0], ast.Constant) and e.args[0].value == 0:
                    return [], "0", "TD"
                if not e.args and len(e.keywords) == 1 and e.keywords[0].arg == "seconds":
                    b, t, ty = self.expr(e.keywords[0].value)
                    b, t = self.coerce(b, t, ty, "Int")
                    return b, t, "TD"
                raise Untranslatable("timedelta arguments")
        raise Untranslatable("call")

    # ------------------------------------------------------------------ conditions (Bool terms)
    def truthy(self, b, t, ty):
        if ty == "Bool": return b, t
        if ty in ("Int", "TD"): return b, "(%s != 0)" % t
        if ty == "OptInt": return b, "(TzifPy.optTruthy %s)" % t
        if ty == "OptRef": return b, "(%s).isSome" % t
        if ty in ELEM or ty in ("Str", "Bytes"): return b, "(!(%s).isEmpty)" % t
        raise Untranslatable("truth value of %s" % ty)

    def cond(self, e):
        """(binds, Bool term); raises if a later operand of and/or needs binds (use boolval for short-circuit values)"""
        if isinstance(e, ast.UnaryOp) and isinstance(e.op, ast.Not):
            b, c = self.cond(e.operand)
            return b, "(!%s)" % c
        if isinstance(e, ast.BoolOp):
            binds, parts = [], []
            for k, v in enumerate(e.values):
                b, c = self.cond(v)
                if b and k > 0:
                    raise Untranslatable("short-circuit operand that can raise inside a condition")
                binds += b; parts.append(c)
            return binds, "(" + (" && " if isinstance(e.op, ast.And) else " || ").join(parts) + ")"
        if isinstance(e, ast.Compare) and len(e.ops) == 1:
            op, right = e.ops[0], e.comparators[0]
            bl, l, tl = self.expr(e.left)
            if isinstance(op, (ast.Is, ast.IsNot)) and isinstance(right, ast.Constant) and right.value is None:
                if tl not in ("OptInt", "OptRef"): raise Untranslatable("`is None` on %s" % tl)
                return bl, "(%s).%s" % (l, "isNone" if isinstance(op, ast.Is) else "isSome")
            br, r, tr = self.expr(right)
            binds = bl + br
            if "StrLit" in (tl, tr):
                if tl == "StrLit": binds, l = self.coerce(binds, l, tl, "Str"); tl = "Str"
                if tr == "StrLit": binds, r = self.coerce(binds, r, tr, "Str"); tr = "Str"
            if isinstance(op, (ast.Eq, ast.NotEq)):
                if tl != tr:
                    if {tl, tr} == {"Int", "OptInt"}:
                        if tl == "Int": l = "(some %s)" % l
                        else: r = "(some %s)" % r
                    else: raise Untranslatable("comparison of %s with %s" % (tl, tr))
                elif tl not in ("Int", "OptInt", "Str", "Bool", "TD"): raise Untranslatable("equality on %s" % tl)
                return binds, "(%s %s %s)" % (l, "==" if isinstance(op, ast.Eq) else "!=", r)
            sym = {ast.Lt: "<", ast.LtE: "≤", ast.Gt: ">", ast.GtE: "≥"}.get(type(op))
            if sym and tl == tr == "Int":
                return binds, "(decide (%s %s %s))" % (l, sym, r)
            raise Untranslatable("comparison")
        b, t, ty = self.expr(e)
        return self.truthy(b, t, ty)

    def boolval(self, e):
        """a boolean VALUE; `a and b` where b can raise is evaluated under the guard a"""
        if isinstance(e, ast.BoolOp) and isinstance(e.op, ast.And) and len(e.values) == 2:
            b1, c1 = self.cond(e.values[0])
            b2, c2 = self.cond(e.values[1])
            if b2:
                n = self.fresh()
                inner = " ".join("let %s %s %s;" % (p, k, r) for p, k, r in b2)
                return b1 + [(n, "←", "(if %s then do %s pure %s else pure false : Py.R Bool)" % (c1, inner, c2))], n, "Bool"
            return b1, "(%s && %s)" % (c1, c2), "Bool"
        b, c = self.cond(e)
        return b, c, "Bool"

    # ------------------------------------------------------------------ statements
    def assigned(self, stmts):
        out = []
        def add(n):
            if n not in out: out.append(n)
        def target(t):
            if isinstance(t, ast.Name): add(t.id)
            elif isinstance(t, ast.Tuple):
                for el in t.elts: target(el)
            elif self.out_attr(t): add("out_" + t.attr)
            elif isinstance(t, ast.Attribute) and isinstance(t.value, ast.Name): add("heap")
            else: raise Untranslatable("assignment target")
        for s in stmts:
            for n in ast.walk(s):
                if isinstance(n, ast.Assign):
                    for t in n.targets: target(t)
                elif isinstance(n, ast.AugAssign): target(n.target)
                elif isinstance(n, ast.For): target(n.target)
                elif isinstance(n, ast.Call):
                    f = n.func
                    if isinstance(f, ast.Name) and f.id == "_ttinfo": add("heap")
                    if isinstance(f, ast.Attribute) and f.attr in ("read", "seek") and isinstance(f.value, ast.Name) \
                            and f.value.id == "fileobj": add("fileobj")
                    if isinstance(f, ast.Attribute) and f.attr == "append":
                        v = f.value
                        if isinstance(v, ast.Name): add(v.id)
                        elif self.out_attr(v): add("out_" + v.attr)
                        elif isinstance(v, ast.Subscript) and isinstance(v.value, ast.Name): add(v.value.id)
                        else: raise Untranslatable("append target")
        return out

    def emit_binds(self, binds, pad):
        return ["%slet %s %s %s" % (pad, p, k, r) for p, k, r in binds]

    def bind_name(self, name, binds, t, ty, pad):
        """lines for `name = <value>`"""
        want = self.env.get(name) or DECL.get(name)
        if ty == "NewRef":
            want, ty = "Ref", "Ref"
        if want is None:
            if ty in ("None", "EmptyList", "StrLit"): raise Untranslatable("cannot type %s" % name)
            want = ty
        if want != ty and name in DECL and ty in ("IntList", "RefList") and want in ("IntList", "RefList") \
                and self.loop is None:
            want = ty                   # out.trans_idx: type indices, then objects (re-typed at top level only)
        binds, t = self.coerce(binds, t, ty, want)
        self.env[name] = want
        return self.emit_binds(binds, pad) + ["%slet %s : %s := %s" % (pad, name, LEAN_TY[want], t)]

    def block(self, stmts, ind, tail):
        """lines of a do-block ending in `tail` (a term of the monad)"""
        pad = "  " * ind
        if not stmts:
            return [pad + tail]
        s, rest = stmts[0], stmts[1:]
        if isinstance(s, ast.Expr) and isinstance(s.value, ast.Constant):
            return self.block(rest, ind, tail)
        if isinstance(s, ast.Pass):
            return self.block(rest, ind, tail)
        if isinstance(s, ast.Break):
            if self.loop is None or not self.loop[1]: raise Untranslatable("break outside a loop")
            return [pad + "pure (true, %s)" % ", ".join(self.loop[0])]
        if isinstance(s, ast.Return):
            if self.loop is not None: raise Untranslatable("return inside a loop")
            if not (isinstance(s.value, ast.Name) and s.value.id == "out"): raise Untranslatable("return value")
            fields = []
            for a in OUT_FIELDS:
                v = "out_" + a
                if v not in self.env: raise Untranslatable("out.%s never assigned" % a)
                if self.env[v] != OUT_TYPES[a]: raise Untranslatable("out.%s has type %s" % (a, self.env[v]))
                fields.append("%s := %s" % (a, v))
            return [pad + "pure { heap := heap, %s }" % ", ".join(fields)]
        if isinstance(s, ast.Raise):
            ex = s.exc
            name = ex.func.id if isinstance(ex, ast.Call) and isinstance(ex.func, ast.Name) else \
                (ex.id if isinstance(ex, ast.Name) else None)
            if name not in ERR: raise Untranslatable("raise %s" % name)
            return [pad + "throw Py.PyErr.%s" % ERR[name]]
        if isinstance(s, ast.If):
            return self.if_stmt(s, rest, ind, tail)
        if isinstance(s, ast.For):
            return self.for_stmt(s, rest, ind, tail)
        if isinstance(s, ast.Assign):
            lines = []
            if len(s.targets) == 1 and isinstance(s.targets[0], ast.Name) and s.targets[0].id == "out" \
                    and isinstance(s.value, ast.Call) and isinstance(s.value.func, ast.Name) and s.value.func.id == "_tzfile" \
                    and not s.value.args and not s.value.keywords:
                # `_tzfile()` sets every attribute to None; only the object-valued ones may be read before assignment
                for a in OUT_FIELDS:
                    if OUT_TYPES[a] == "OptRef":
                        self.env["out_" + a] = "OptRef"
                        lines.append("%slet out_%s : %s := none" % (pad, a, LEAN_TY["OptRef"]))
                self.env["heap"] = "Heap"
                lines.append("%slet heap : TzifPy.Heap := []" % pad)
                return lines + self.block(rest, ind, tail)
            b, t, ty = self.expr(s.value)
            first = True
            for tg in reversed(s.targets) if len(s.targets) > 1 else s.targets:
                bb = b if first else []
                first = False
                if isinstance(tg, ast.Name):
                    lines += self.bind_name(tg.id, bb, t, ty, pad)
                elif self.out_attr(tg):
                    lines += self.bind_name("out_" + tg.attr, bb, t, ty, pad)
                elif isinstance(tg, ast.Tuple) and all(isinstance(x, ast.Name) for x in tg.elts):
                    names = [x.id for x in tg.elts]
                    lines += self.emit_binds(bb, pad)
                    if ty == "IntList" and len(names) == 6:
                        lines.append("%slet (%s) ← TzifPy.six %s" % (pad, ", ".join(names), t))
                    elif ty == "Rec3" and len(names) == 3:
                        lines.append("%slet (%s) := %s" % (pad, ", ".join(names), t))
                    else:
                        raise Untranslatable("unpacking %s into %d names" % (ty, len(names)))
                    for n in names: self.env[n] = "Int"
                elif isinstance(tg, ast.Attribute) and isinstance(tg.value, ast.Name) and self.env.get(tg.value.id) == "Ref":
                    if tg.attr not in TT_FIELDS: raise Untranslatable("attribute %s of _ttinfo" % tg.attr)
                    want = TT_FIELDS[tg.attr]
                    if ty == "Int" and want == "TD" or ty == "TD" and want == "Int":
                        raise Untranslatable("_ttinfo.%s assigned a value of type %s" % (tg.attr, ty))
                    bb, tt = self.coerce(bb, t, ty, want)
                    lines += self.emit_binds(bb, pad)
                    lines.append("%slet heap := TzifPy.hmod (fun o => { o with %s := %s }) heap %s" % (pad, tg.attr, tt, tg.value.id))
                else:
                    raise Untranslatable("assignment target")
            return lines + self.block(rest, ind, tail)
        if isinstance(s, ast.Expr) and isinstance(s.value, ast.Call):
            c = s.value
            f = c.func
            if isinstance(f, ast.Attribute) and f.attr == "append" and len(c.args) == 1 and not c.keywords:
                b, t, ty = self.expr(c.args[0])
                v = f.value
                if isinstance(v, ast.Subscript) and isinstance(v.value, ast.Name) and self.env.get(v.value.id) == "WallPair" \
                        and isinstance(v.slice, ast.Constant) and v.slice.value in (0, 1):
                    b, t = self.coerce(b, t, ty, "Int")
                    p = v.value.id
                    new = "(%s.1 ++ [%s], %s.2)" % (p, t, p) if v.slice.value == 0 else "(%s.1, %s.2 ++ [%s])" % (p, p, t)
                    return self.emit_binds(b, pad) + ["%slet %s : %s := %s" % (pad, p, LEAN_TY["WallPair"], new)] + \
                        self.block(rest, ind, tail)
                name = v.id if isinstance(v, ast.Name) else ("out_" + v.attr if self.out_attr(v) else None)
                if name is None or self.env.get(name) not in ELEM: raise Untranslatable("append target")
                b, t = self.coerce(b, t, ty, ELEM[self.env[name]])
                return self.emit_binds(b, pad) + ["%slet %s : %s := %s ++ [%s]" % (pad, name, LEAN_TY[self.env[name]], name, t)] + \
                    self.block(rest, ind, tail)
            if isinstance(f, ast.Attribute) and isinstance(f.value, ast.Name) and f.value.id == "fileobj":
                if f.attr == "read":
                    b, t, ty = self.expr(c)
                    return self.emit_binds(b, pad) + self.block(rest, ind, tail)
                if f.attr == "seek" and len(c.args) == 2 and isinstance(c.args[1], ast.Attribute) \
                        and isinstance(c.args[1].value, ast.Name) and c.args[1].value.id == "os" and c.args[1].attr == "SEEK_CUR":
                    b, t, ty = self.expr(c.args[0])
                    if ty != "Int": raise Untranslatable("seek(%s)" % ty)
                    return self.emit_binds(b, pad) + ["%slet fileobj := fileobj.seekCur %s" % (pad, t)] + self.block(rest, ind, tail)
            raise Untranslatable("expression statement")
        raise Untranslatable("statement %s" % type(s).__name__)

    def if_stmt(self, s, rest, ind, tail):
        pad = "  " * ind
        b, c = self.cond(s.test)
        lines = self.emit_binds(b, pad)
        if len(s.body) == 1 and isinstance(s.body[0], ast.Raise) and not s.orelse:
            r = self.block(s.body, 0, "")[0].strip()
            return lines + ["%sif %s then %s" % (pad, c, r)] + self.block(rest, ind, tail)
        if escapes([s]):
            saved = dict(self.env)
            th = self.block(list(s.body) + rest, ind + 1, tail)
            self.env = dict(saved)
            el = self.block(list(s.orelse) + rest, ind + 1, tail)
            self.env = saved
            return lines + ["%sif %s then do" % (pad, c)] + th + ["%selse do" % pad] + el
        names = self.assigned(list(s.body) + list(s.orelse))
        # types of names first bound inside: translate the branches on copies of the environment
        saved = dict(self.env)
        dry = (list(self.loops), self.nloop, self.tmp, self.nif)             # dry run of both branches: only the types are kept
        self.block(list(s.body), ind + 2, "pure ()"); env_t = self.env
        self.env = dict(saved)
        self.block(list(s.orelse), ind + 2, "pure ()"); env_e = self.env
        self.env = dict(saved)
        self.loops, self.nloop, self.tmp, self.nif = dry
        names = [n for n in names if n in saved or n in env_t or n in env_e]     # loop-local names stay local
        for n in names:
            if n not in self.env:
                ty = env_t.get(n) or env_e.get(n)
                if n in env_t and n in env_e:
                    if env_t[n] != env_e[n]: raise Untranslatable("%s has two types" % n)
                    self.env[n] = ty                     # bound on both paths
                    continue
                if ty not in DEFAULT: raise Untranslatable("conditionally bound %s" % n)
                lines.append("%slet %s : %s := %s  -- bound on one path only" % (pad, n, LEAN_TY[ty], DEFAULT[ty]))
                self.env[n] = ty
        for n in names:
            if env_t.get(n, self.env[n]) != self.env[n] or env_e.get(n, self.env[n]) != self.env[n]:
                raise Untranslatable("%s changes its type in a branch" % n)
        pre = dict(self.env)
        ret = "pure %s" % self.tup(names)
        for n in names:            # names bound on both paths are not yet visible inside the branches
            if n not in saved and n in env_t and n in env_e: del self.env[n]
        inner = dict(self.env)
        th = self.block(list(s.body), ind + 2, ret)
        self.env = dict(inner)
        el = self.block(list(s.orelse), ind + 2, ret)
        self.env = pre
        if self.loop is None and ind == 1:
            # a top-level `if` statement becomes a definition of its own (like the `for` statements)
            self.nif += 1
            k = self.nif
            text = "\n".join(th + el) + "\n" + c
            free = [v for v in pre if v in inner and re.search(r"(?<![\w.])%s(?![\w])" % re.escape(v), text)]
            d = "/-- `if` statement %d (source line %d): the names it assigns -/\n" % (k, s.lineno)
            d += "def readTzfile_if%d %s : Py.R (%s) :=\n" % (k, " ".join("(%s : %s)" % (v, LEAN_TY[inner[v]]) for v in free),
                                                             self.tup_ty(names))
            d += "  if %s then do\n" % c + "\n".join(l[2:] for l in th) + "\n  else do\n" + "\n".join(l[2:] for l in el) + "\n"
            self.loops.append(d)
            lines.append("%slet %s ← readTzfile_if%d %s" % (pad, self.tup(names), k, " ".join(free)))
            return lines + self.block(rest, ind, tail)
        lines.append("%slet %s ← ((if %s then do" % (pad, self.tup(names), c))
        lines += th + ["%s  else do" % pad] + el
        lines.append("%s  ) : Py.R (%s))" % (pad, self.tup_ty(names)))
        return lines + self.block(rest, ind, tail)

    def for_stmt(self, s, rest, ind, tail):
        pad = "  " * ind
        if self.loop is not None: raise Untranslatable("nested loop")
        # iteration space
        it = s.iter
        pre = []
        if isinstance(it, ast.Call) and isinstance(it.func, ast.Name) and it.func.id == "range" and not it.keywords:
            if len(it.args) == 1:
                b, t, ty = self.expr(it.args[0]); fn = "TzifPy.rangeUp"
            elif len(it.args) == 3 and all(isinstance(a, ast.UnaryOp) and isinstance(a.op, ast.USub)
                                           and isinstance(a.operand, ast.Constant) and a.operand.value == 1 for a in it.args[1:]):
                b, t, ty = self.expr(it.args[0]); fn = "TzifPy.rangeDown"
            else:
                raise Untranslatable("range arguments")
            if ty != "Int": raise Untranslatable("range(%s)" % ty)
            pre, space, elty = b, "(%s %s)" % (fn, t), "Int"
        elif isinstance(it, ast.Call) and isinstance(it.func, ast.Name) and it.func.id == "enumerate" and len(it.args) == 1:
            b, t, ty = self.expr(it.args[0])
            if ty not in ELEM: raise Untranslatable("enumerate(%s)" % ty)
            pre, space, elty = b, "(TzifPy.enum %s)" % t, ("Int", ELEM[ty])
        else:
            b, t, ty = self.expr(it)
            if ty not in ELEM: raise Untranslatable("for over %s" % ty)
            pre, space, elty = b, t, ELEM[ty]
        if pre: raise Untranslatable("iteration space that can raise")
        if isinstance(s.target, ast.Name) and isinstance(elty, str):
            tnames, pat = [(s.target.id, elty)], s.target.id
        elif isinstance(s.target, ast.Tuple) and isinstance(elty, tuple) and len(s.target.elts) == 2 \
                and all(isinstance(x, ast.Name) for x in s.target.elts):
            tnames = list(zip([x.id for x in s.target.elts], elty))
            pat = "(%s, %s)" % (tnames[0][0], tnames[1][0])
        else:
            raise Untranslatable("for target")
        targets = [n for n, _ in tnames]
        # a `_ttinfo()` made in the body must have every slot assigned, unconditionally, in that body (the heap model has no None slots)
        for st in s.body:
            if isinstance(st, ast.Assign) and isinstance(st.value, ast.Call) and isinstance(st.value.func, ast.Name) \
                    and st.value.func.id == "_ttinfo" and len(st.targets) == 1 and isinstance(st.targets[0], ast.Name):
                obj = st.targets[0].id
                setattrs = {t.attr for b in s.body if isinstance(b, ast.Assign) for t in b.targets
                            if isinstance(t, ast.Attribute) and isinstance(t.value, ast.Name) and t.value.id == obj}
                if not set(TT_FIELDS) <= setattrs:
                    raise Untranslatable("_ttinfo() with unassigned slots %s" % sorted(set(TT_FIELDS) - setattrs))
        carried = [v for v in self.assigned(list(s.body) + list(s.orelse)) if v not in targets and v in self.env]
        if not carried: raise Untranslatable("loop without effect")
        has_break = has(s.body, ast.Break)
        self.nloop += 1
        k = self.nloop
        saved = dict(self.env)
        for n, ty in tnames: self.env[n] = ty
        self.loop = (carried, has_break)
        cont = "pure (false, %s)" % ", ".join(carried) if has_break else "pure %s" % self.tup(carried)
        body = self.block(list(s.body), 2 if has_break else 1, cont)
        self.loop = None
        self.env = dict(saved)
        st_pat = "(brk, %s)" % ", ".join(carried) if has_break else self.tup(carried)
        st_ty = ("(Bool × %s)" % " × ".join(LEAN_TY[saved[v]] for v in carried)) if has_break else self.tup_ty(carried, saved)
        elty_s = LEAN_TY[elty] if isinstance(elty, str) else "(Int × %s)" % LEAN_TY[elty[1]]
        # the `else` clause
        els = []
        if s.orelse:
            if not has_break: raise Untranslatable("for/else without break")
            els = self.block(list(s.orelse), 2, "pure %s" % self.tup(carried))
            self.env = dict(saved)
        text_body = "\n".join(body)
        text_all = text_body + "\n" + "\n".join(els) + "\n" + space
        free = [v for v in saved if v not in carried and re.search(r"(?<![\w.])%s(?![\w])" % re.escape(v), text_all)]
        params = " ".join("(%s : %s)" % (v, LEAN_TY[saved[v]]) for v in free)
        args = " ".join(free)
        d = "/-- one iteration of `for` statement %d (source line %d) -/\n" % (k, s.lineno)
        d += "def readTzfile_loop%d_body %s (x : %s) (st : %s) : Py.R (%s) :=\n" % (k, params, elty_s, st_ty, st_ty)
        d += "  match x, st with\n  | %s, %s => do\n" % (pat, st_pat)
        if has_break:
            d += "    if brk then pure (true, %s) else do\n" % ", ".join(carried)
        d += "\n".join(("  " + l) for l in body) + "\n\n"
        cparams = " ".join("(%s : %s)" % (v, LEAN_TY[saved[v]]) for v in carried)
        d += "/-- `for` statement %d (source line %d)%s -/\n" % (k, s.lineno, " with its `else` clause" if s.orelse else "")
        d += "def readTzfile_loop%d %s %s : Py.R (%s) := do\n" % (k, params, cparams, self.tup_ty(carried, saved))
        init = "(false, %s)" % ", ".join(carried) if has_break else self.tup(carried)
        d += "  let %s ← TzifPy.forEach (readTzfile_loop%d_body %s) %s %s\n" % (st_pat, k, args, space, init)
        if s.orelse:
            d += "  if brk then pure %s else do\n" % self.tup(carried) + "\n".join(els) + "\n"
        else:
            d += "  pure %s\n" % self.tup(carried)
        self.loops.append(d)
        line = "%slet %s ← readTzfile_loop%d %s %s" % (pad, self.tup(carried), k, args, " ".join(carried))
        return [line] + self.block(rest, ind, tail)

    def function(self):
        fn = self.fn
        formals = [a.arg for a in fn.args.args]
        if formals != ["self", "fileobj"]: raise Untranslatable("signature of _read_tzfile is %s" % formals)
        self.env = {"fileobj": "File"}
        # two definitions, split after the statement that replaces the type indices by objects (the first list
        # comprehension): `readTzfile_decode` (stream -> tables and objects) and `readTzfile_build` (derived attributes)
        cut = [k for k, st in enumerate(fn.body) if isinstance(st, ast.Assign) and isinstance(st.value, ast.ListComp)]
        if not cut: raise Untranslatable("no index-replacement statement to split at")
        k = cut[0] + 1
        part1 = self.block(fn.body[:k], 1, "@@LIVE@@")
        n1 = len(self.loops)
        env1 = dict(self.env)
        part2 = self.block(fn.body[k:], 1, "throw Py.PyErr.TypeError  -- falls off the end (returns None)")
        text2 = "\n".join(part2) + "\n" + "\n".join(self.loops[n1:])
        live = [v for v in env1 if re.search(r"(?<![\w.])%s(?![\w])" % re.escape(v), text2)]
        live_ty = "(" + " × ".join(LEAN_TY[env1[v]] for v in live) + ")"
        text = "\n".join(self.loops[:n1])
        text += "/-- translated from `tzfile._read_tzfile`, first part: the stream is decoded into tables and `_ttinfo` objects -/\n"
        text += "def readTzfile_decode (data : List UInt8) : Py.R %s := do\n" % live_ty
        text += "  let fileobj : TzifPy.File := TzifPy.File.ofBytes data\n"
        text += "\n".join(part1).replace("@@LIVE@@", "pure (%s)" % ", ".join(live)) + "\n\n"
        text += "\n".join(self.loops[n1:])
        text += "/-- translated from `tzfile._read_tzfile`, second part: the derived attributes -/\n"
        text += "def readTzfile_build %s : Py.R TzifPy.Out := do\n" % " ".join("(%s : %s)" % (v, LEAN_TY[env1[v]]) for v in live)
        text += "\n".join(part2) + "\n\n"
        text += "/-- translated from `tzfile._read_tzfile` -/\ndef readTzfile (data : List UInt8) : Py.R TzifPy.Out := do\n"
        text += "  let (%s) ← readTzfile_decode data\n  readTzfile_build %s\n" % (", ".join(live), " ".join(live))
        return text, hashlib.sha256(ast.dump(fn).encode()).hexdigest()[:16]


def translate_files(src_root, groups=None):
    tree = ast.parse(open(os.path.join(src_root, "tz", "tz.py")).read())
    fn = find_function(tree, "tzfile._read_tzfile")
    # the slots of `_ttinfo` and the attribute list of `_tzfile` are part of the tie
    for node in tree.body:
        if isinstance(node, ast.ClassDef) and node.name == "_ttinfo":
            for st in node.body:
                if isinstance(st, ast.Assign) and isinstance(st.targets[0], ast.Name) and st.targets[0].id == "__slots__":
                    if sorted(ast.literal_eval(st.value)) != sorted(TT_FIELDS):
                        raise Untranslatable("_ttinfo.__slots__ changed")
        if isinstance(node, ast.ClassDef) and node.name == "_tzfile":
            for st in node.body:
                if isinstance(st, ast.Assign) and isinstance(st.targets[0], ast.Name) and st.targets[0].id == "attrs":
                    if sorted(ast.literal_eval(st.value)) != sorted(OUT_FIELDS):
                        raise Untranslatable("_tzfile.attrs changed")
    tr = Tr(tree, fn)
    text, fp = tr.function()
    return text, {"tzfile._read_tzfile": fp}


if __name__ == "__main__":
    import sys
    root = sys.argv[1] if len(sys.argv) > 1 else "/repo/src/dateutil"
    print(translate_files(root)[0])
