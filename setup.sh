#!/bin/bash
# setup: build the Lean library (all theorems) and the driver from files on disk only.
set -e
cd "$(dirname "$0")"
export PATH="/opt/veriftools/lean/bin:$PATH"
/venv/bin/python harness/gen.py > /dev/null
cd lean
lake build 2>&1 | grep -v -i conda | tail -5
test -x .lake/build/bin/driver
